import PyramidModel.Lemmas.IntrospectRel
/-!
Helper lemmas for C20, part 4: links exist only between slots that some `relate` call named; the registration
loop of `execute_actions` as an operation sequence.
-/
namespace Pyr.Introspect

def Obj.slot (o : Obj) : Nat × Nat := (o.cat, o.discr)

theorem runOps_append (S : IState) (a b : List Op) : runOps S (a ++ b) = runOps (runOps S a) b := by
  simp [runOps, List.foldl_append]

/-! ### membership specifications of the single operations, over a state satisfying the invariants -/

theorem peek_slot {S : IState} (wf : CatsWF S) {c d : Nat} {e : Entry} (h : peek S c d = some e) : e.obj.slot = (c, d) := by
  have hd := findE_some_discr h
  have hm : e ∈ S.entries c := by
    unfold peek findE at h
    exact List.mem_of_find?_eq_some h
  have hc := (wf.mem c e hm).1
  simp [Obj.slot, hc, hd]

theorem lookupAll_slots {S : IState} (wf : CatsWF S) : ∀ {ks : List (Nat × Nat)} {xs : List Obj},
    lookupAll S ks = .ok xs → xs.map Obj.slot = ks := by
  intro ks
  induction ks with
  | nil => intro xs h; simp [lookupAll] at h; cases h; rfl
  | cons k r ih =>
    intro xs h
    obtain ⟨c, d⟩ := k
    unfold lookupAll at h
    split at h
    · cases h
    · rename_i e he
      split at h
      · cases h
      · rename_i os hos
        cases h
        simp [peek_slot wf he, ih hos]

theorem relate_spec {U : List Obj} (hU : ValInj U) {S S' : IState} (inv : RelInv U S) {rel : Bool}
    {ks : List (Nat × Nat)} (h : relate S rel ks = .ok S') :
    ∃ xs, lookupAll S ks = .ok xs ∧
      ∀ z w, w ∈ relatedOf S' z ↔
        (if rel then w ∈ relatedOf S z ∨ (z ∈ xs ∧ w ∈ xs ∧ z ≠ w) else w ∈ relatedOf S z ∧ ¬ (z ∈ xs ∧ w ∈ xs)) := by
  unfold relate at h
  split at h
  · cases h
  · rename_i xs hxs
    cases h
    refine ⟨xs, hxs, ?_⟩
    have hin : ∀ p ∈ pairsOf xs, p.1 ∈ U ∧ p.2 ∈ U := by
      intro p hp
      have := (mem_pairsOf (z := p.1) (w := p.2)).mp hp
      obtain ⟨c1, e1, hm1, he1⟩ := lookupAll_live hxs p.1 this.1
      obtain ⟨c2, e2, hm2, he2⟩ := lookupAll_live hxs p.2 this.2
      exact ⟨he1 ▸ inv.live c1 e1 hm1, he2 ▸ inv.live c2 e2 hm2⟩
    intro z w
    simp only [relatedOf_eq, relateObjs]
    cases rel with
    | true =>
      have f := relFold_true hU (pairsOf xs) inv.refs hin
      rw [f.2 z w, mem_pairsOf]
      simp only [if_true]
      constructor
      · rintro (h1 | ⟨⟨h1, h2⟩, h3⟩)
        · exact Or.inl h1
        · exact Or.inr ⟨h1, h2, h3⟩
      · rintro (h1 | ⟨h1, h2, h3⟩)
        · exact Or.inl h1
        · exact Or.inr ⟨⟨h1, h2⟩, h3⟩
    | false =>
      have f := relFold_false hU (pairsOf xs) inv.refs hin
      rw [f.2 z w, mem_pairsOf]
      simp

/-- the slots named by the `relate` calls of an operation sequence -/
def Named (ops : List Op) (a b : Nat × Nat) : Prop := ∃ ks, Op.relate true ks ∈ ops ∧ a ∈ ks ∧ b ∈ ks

theorem named_mono {ops : List Op} {a b : Nat × Nat} (op : Op) (h : Named ops a b) : Named (ops ++ [op]) a b := by
  obtain ⟨ks, h1, h2, h3⟩ := h
  exact ⟨ks, List.mem_append_left _ h1, h2, h3⟩

/-- **soundness of links**: in the state reached by `ops` every link joins two introspectables whose slots were
named together by one `relate` call of `ops` -/
theorem links_named_snoc {U : List Obj} (hU : ValInj U) {ops : List Op} {S : IState} (wf : CatsWF S) (inv : RelInv U S)
    (hl : ∀ z w, w ∈ relatedOf S z → Named ops z.slot w.slot) (op : Op) (hop : ∀ o info, op = .add o info → o ∈ U) :
    ∀ z w, w ∈ relatedOf (step S op) z → Named (ops ++ [op]) z.slot w.slot := by
  intro z w hw
  cases op with
  | add o info => exact named_mono _ (hl z w hw)
  | get c d => exact named_mono _ (hl z w hw)
  | remove c d =>
    obtain ⟨S', hr, _, hspec⟩ := relInv_remove hU inv c d
    simp only [step, hr] at hw
    cases hp : peek S c d with
    | none =>
      -- nothing removed: the state is `touch S c`
      have : S' = touch S c := by
        simp only [remove, peek_touch, hp] at hr
        cases hr; rfl
      subst this
      exact named_mono _ (hl z w hw)
    | some e =>
      exact named_mono _ (hl z w ((hspec e hp z w).mp hw).1)
  | relate rel ks =>
    simp only [step] at hw
    split at hw
    · rename_i S' hr
      obtain ⟨xs, hxs, hspec⟩ := relate_spec hU inv hr
      have hsl := lookupAll_slots wf hxs
      rw [hspec z w] at hw
      cases rel with
      | true =>
        simp only [if_true] at hw
        rcases hw with hw | ⟨h1, h2, _⟩
        · exact named_mono _ (hl z w hw)
        · refine ⟨ks, by simp, ?_, ?_⟩
          · rw [← hsl]; exact List.mem_map_of_mem h1
          · rw [← hsl]; exact List.mem_map_of_mem h2
      | false =>
        simp only [Bool.false_eq_true, if_false] at hw
        exact named_mono _ (hl z w hw.1)
    · exact named_mono _ (hl z w hw)

theorem runOps_snoc (S : IState) (ops : List Op) (op : Op) : runOps S (ops ++ [op]) = step (runOps S ops) op := by
  simp [runOps, List.foldl_append]

theorem mem_addedObjs_append_left {a b : List Op} {o : Obj} (h : o ∈ addedObjs a) : o ∈ addedObjs (a ++ b) := by
  induction a with
  | nil => cases h
  | cons op r ih =>
    cases op with
    | add o' info =>
      simp only [addedObjs, List.cons_append, List.mem_cons] at h ⊢
      rcases h with h | h
      · exact Or.inl h
      · exact Or.inr (ih h)
    | get c d => simp only [addedObjs, List.cons_append] at h ⊢; exact ih h
    | remove c d => simp only [addedObjs, List.cons_append] at h ⊢; exact ih h
    | relate rel ks => simp only [addedObjs, List.cons_append] at h ⊢; exact ih h

theorem mem_addedObjs_snoc_add (ops : List Op) (o : Obj) (info : Nat) : o ∈ addedObjs (ops ++ [.add o info]) := by
  induction ops with
  | nil => simp [addedObjs]
  | cons op r ih => cases op <;> simp [addedObjs, ih]

theorem links_named_from {U : List Obj} (hU : ValInj U) (ops : List Op) :
    ∀ (ops0 : List Op) {S : IState}, CatsWF S → RelInv U S →
      (∀ z w, w ∈ relatedOf S z → Named ops0 z.slot w.slot) → (∀ o ∈ addedObjs ops, o ∈ U) →
      ∀ z w, w ∈ relatedOf (runOps S ops) z → Named (ops0 ++ ops) z.slot w.slot := by
  induction ops with
  | nil => intro ops0 S _ _ hl _ z w h; simpa using hl z w h
  | cons op r ih =>
    intro ops0 S wf inv hl hin z w h
    have hop : ∀ o info, op = .add o info → o ∈ U := by
      intro o info e
      subst e
      exact hin o (by simp [addedObjs])
    have hin' : ∀ o ∈ addedObjs r, o ∈ U := fun o ho => hin o (mem_addedObjs_cons op r o ho)
    have := ih (ops0 ++ [op]) (catsWF_step wf op) (relInv_step hU inv op hop)
      (links_named_snoc hU wf inv hl op hop) hin' z w h
    simpa [List.append_assoc] using this

theorem links_named {U : List Obj} (hU : ValInj U) (ops : List Op) (hin : ∀ o ∈ addedObjs ops, o ∈ U) :
    ∀ z w, w ∈ relatedOf (runOps IState.empty ops) z → Named ops z.slot w.slot := by
  intro z w h
  have := links_named_from hU ops [] catsWF_empty (relInv_empty U)
    (by intro z w h; simp [relatedOf, IState.empty, alookup] at h) hin z w h
  simpa using this

/-! ### the registration loop as an operation sequence -/

def opsOfDecl (info : Nat) (d : Decl) : List Op :=
  .add d.obj info :: d.rels.map fun r => .relate r.rel [(d.obj.cat, d.obj.discr), (r.cat, r.discr)]

def opsOfRegs (regs : List (Nat × Decl)) : List Op := regs.flatMap fun p => opsOfDecl p.1 p.2

theorem applyRels_runOps (o : Obj) (rs : List Rel) : ∀ {S S' : IState}, applyRels o rs S = .ok S' →
    S' = runOps S (rs.map fun r => .relate r.rel [(o.cat, o.discr), (r.cat, r.discr)]) := by
  induction rs with
  | nil => intro S S' h; simp [applyRels] at h; cases h; rfl
  | cons r rs ih =>
    intro S S' h
    unfold applyRels at h
    split at h
    · cases h
    · rename_i S1 h1
      have := ih h
      rw [this]
      simp [runOps, step, h1]

theorem register_runOps {S S' : IState} {info : Nat} {d : Decl} (h : register S info d = .ok S') :
    S' = runOps S (opsOfDecl info d) := by
  unfold register at h
  have := applyRels_runOps _ _ h
  rw [this]
  simp [opsOfDecl, runOps, step]

theorem registerList_runOps (info : Nat) (ds : List Decl) : ∀ {S S' : IState}, registerList info ds S = .ok S' →
    S' = runOps S (opsOfRegs (ds.map fun d => (info, d))) := by
  induction ds with
  | nil => intro S S' h; simp [registerList] at h; cases h; rfl
  | cons d ds ih =>
    intro S S' h
    unfold registerList at h
    split at h
    · cases h
    · rename_i S1 h1
      rw [ih h, register_runOps h1]
      simp [opsOfRegs, runOps_append]

theorem registerAll_runOps (decls : Nat → List Decl) (ids : List Nat) : ∀ {S S' : IState},
    registerAll decls ids S = .ok S' → S' = runOps S (opsOfRegs (regsOf decls ids)) := by
  induction ids with
  | nil => intro S S' h; simp [registerAll] at h; cases h; rfl
  | cons i r ih =>
    intro S S' h
    unfold registerAll at h
    split at h
    · cases h
    · rename_i S1 h1
      rw [ih h, registerList_runOps i (decls i) h1]
      have : regsOf decls (i :: r) = ((decls i).map fun x => (i, x)) ++ regsOf decls r := by simp [regsOf]
      rw [this]
      simp [opsOfRegs, runOps_append]

theorem mem_opsOfRegs_relate {regs : List (Nat × Decl)} {ks : List (Nat × Nat)} (h : Op.relate true ks ∈ opsOfRegs regs) :
    ∃ p ∈ regs, ∃ r ∈ p.2.rels, r.rel = true ∧ ks = [p.2.key, (r.cat, r.discr)] := by
  unfold opsOfRegs at h
  rw [List.mem_flatMap] at h
  obtain ⟨p, hp, hmem⟩ := h
  simp only [opsOfDecl, List.mem_cons, List.mem_map, reduceCtorEq, false_or] at hmem
  obtain ⟨r, hr, he⟩ := hmem
  simp only [Op.relate.injEq] at he
  exact ⟨p, hp, r, hr, he.1, he.2.symm⟩

theorem addedObjs_opsOfRegs (regs : List (Nat × Decl)) : ∀ o ∈ addedObjs (opsOfRegs regs), ∃ p ∈ regs, p.2.obj = o := by
  induction regs with
  | nil => intro o h; simp [opsOfRegs, addedObjs] at h
  | cons p r ih =>
    intro o h
    have hsplit : opsOfRegs (p :: r) = opsOfDecl p.1 p.2 ++ opsOfRegs r := by simp [opsOfRegs]
    rw [hsplit] at h
    -- addedObjs of an append
    have happ : ∀ (a b : List Op), addedObjs (a ++ b) = addedObjs a ++ addedObjs b := by
      intro a b
      induction a with
      | nil => rfl
      | cons op a iha => cases op <;> simp [addedObjs, iha]
    rw [happ] at h
    rcases List.mem_append.mp h with h | h
    · have hrel : ∀ (l : List Rel), addedObjs (l.map fun r => Op.relate r.rel [(p.2.obj.cat, p.2.obj.discr), (r.cat, r.discr)]) = [] := by
        intro l; induction l with
        | nil => rfl
        | cons x l ihl => simp [addedObjs, ihl]
      simp only [opsOfDecl, addedObjs, hrel, List.mem_singleton] at h
      exact ⟨p, List.mem_cons_self, h.symm⟩
    · obtain ⟨q, hq, he⟩ := ih o h
      exact ⟨q, List.mem_cons_of_mem _ hq, he⟩

/-! ### object level: a link joins the two objects that one `relate` call found in the slots it named -/

theorem addedObjs_append (a b : List Op) : addedObjs (a ++ b) = addedObjs a ++ addedObjs b := by
  induction a with
  | nil => rfl
  | cons op a iha => cases op <;> simp [addedObjs, iha]

/-- `z` and `w` were, at the moment of one `relate(*ks)` call of the sequence, the introspectables found in the
slots `ks` named -/
def LinkedBy (E : IState) (ops : List Op) (z w : Obj) : Prop :=
  ∃ pre ks rest xs, ops = pre ++ Op.relate true ks :: rest ∧ lookupAll (runOps E pre) ks = .ok xs ∧ z ∈ xs ∧ w ∈ xs

theorem linkedBy_snoc {E : IState} {ops : List Op} {z w : Obj} (op : Op) (h : LinkedBy E ops z w) :
    LinkedBy E (ops ++ [op]) z w := by
  obtain ⟨pre, ks, rest, xs, h1, h2, h3, h4⟩ := h
  exact ⟨pre, ks, rest ++ [op], xs, by rw [h1]; simp, h2, h3, h4⟩

theorem links_objects_snoc {U : List Obj} (hU : ValInj U) {E : IState} {ops : List Op} {S : IState}
    (hS : S = runOps E ops) (inv : RelInv U S)
    (hl : ∀ z w, w ∈ relatedOf S z → LinkedBy E ops z w) (op : Op) :
    ∀ z w, w ∈ relatedOf (step S op) z → LinkedBy E (ops ++ [op]) z w := by
  intro z w hw
  cases op with
  | add o info => exact linkedBy_snoc _ (hl z w hw)
  | get c d => exact linkedBy_snoc _ (hl z w hw)
  | remove c d =>
    obtain ⟨S', hr, _, hspec⟩ := relInv_remove hU inv c d
    simp only [step, hr] at hw
    cases hp : peek S c d with
    | none =>
      have : S' = touch S c := by
        simp only [remove, peek_touch, hp] at hr
        cases hr; rfl
      subst this
      exact linkedBy_snoc _ (hl z w hw)
    | some e =>
      exact linkedBy_snoc _ (hl z w ((hspec e hp z w).mp hw).1)
  | relate rel ks =>
    simp only [step] at hw
    split at hw
    · rename_i S' hr
      obtain ⟨xs, hxs, hspec⟩ := relate_spec hU inv hr
      rw [hspec z w] at hw
      cases rel with
      | true =>
        simp only [if_true] at hw
        rcases hw with hw | ⟨h1, h2, _⟩
        · exact linkedBy_snoc _ (hl z w hw)
        · exact ⟨ops, ks, [], xs, rfl, hS ▸ hxs, h1, h2⟩
      | false =>
        simp only [Bool.false_eq_true, if_false] at hw
        exact linkedBy_snoc _ (hl z w hw.1)
    · exact linkedBy_snoc _ (hl z w hw)

theorem links_objects_from {U : List Obj} (hU : ValInj U) (E : IState) (ops : List Op) :
    ∀ (ops0 : List Op) {S : IState}, S = runOps E ops0 → RelInv U S →
      (∀ z w, w ∈ relatedOf S z → LinkedBy E ops0 z w) → (∀ o ∈ addedObjs ops, o ∈ U) →
      ∀ z w, w ∈ relatedOf (runOps S ops) z → LinkedBy E (ops0 ++ ops) z w := by
  induction ops with
  | nil => intro ops0 S _ _ hl _ z w h; simpa using hl z w h
  | cons op r ih =>
    intro ops0 S hS inv hl hin z w h
    have hop : ∀ o info, op = .add o info → o ∈ U := by
      intro o info e
      subst e
      exact hin o (by simp [addedObjs])
    have hin' : ∀ o ∈ addedObjs r, o ∈ U := fun o ho => hin o (mem_addedObjs_cons op r o ho)
    have hS' : step S op = runOps E (ops0 ++ [op]) := by rw [runOps_snoc, hS]
    have := ih (ops0 ++ [op]) hS' (relInv_step hU inv op hop) (links_objects_snoc hU hS inv hl op) hin' z w h
    simpa [List.append_assoc] using this

theorem links_objects {U : List Obj} (hU : ValInj U) (ops : List Op) (hin : ∀ o ∈ addedObjs ops, o ∈ U) :
    ∀ z w, w ∈ relatedOf (runOps IState.empty ops) z → LinkedBy IState.empty ops z w := by
  intro z w h
  have := links_objects_from hU IState.empty ops [] (S := IState.empty) rfl (relInv_empty U)
    (by intro z w h; simp [relatedOf, IState.empty, alookup] at h) hin z w h
  simpa using this

/-- several commits into the same introspector are one registration loop over the concatenated executed lists -/
theorem registerAll_append (decls : Nat → List Decl) (a b : List Nat) (S : IState) :
    registerAll decls (a ++ b) S = (match registerAll decls a S with
      | .ok S1 => registerAll decls b S1
      | .error x => .error x) := by
  induction a generalizing S with
  | nil => simp [registerAll]
  | cons i r ih =>
    simp only [List.cons_append, registerAll]
    cases registerList i (decls i) S with
    | error x => rfl
    | ok S1 => exact ih S1

end Pyr.Introspect
