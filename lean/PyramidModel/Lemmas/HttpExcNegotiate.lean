/-
C19 — the choice `prepare` makes among the offered media types against the arg-max spec `bestForm`.
-/
import PyramidModel.HttpExc
import PyramidModel.Lemmas.HttpExcSpec

namespace Pyr.HttpExc

theorem formOf_html : formOf mimeHtml = .html := by decide
theorem formOf_json : formOf mimeJson = .json := by decide
theorem formOf_plain : formOf mimePlain = .plain := by decide

theorem chooseMatch_eq (q : Text → Nat) (o : List Text) :
    chooseMatch q o = ((acceptableOffers q o ++ [mimePlain]).head?).getD mimePlain := by
  unfold chooseMatch
  split <;> simp_all

/-- with all three forms offered, the first acceptable offer after WebOb's ordering is the arg-max form -/
theorem chooseMatch_three (q : Text → Nat) :
    formOf (chooseMatch q [mimeHtml, mimeJson, mimePlain]) = bestForm q := by
  rw [chooseMatch_eq]
  unfold acceptableOffers bestForm
  generalize hh : q mimeHtml = h
  generalize hj : q mimeJson = j
  generalize hp : q mimePlain = p
  by_cases h0 : h = 0 <;> by_cases j0 : j = 0 <;> by_cases p0 : p = 0
  all_goals simp only [List.filter, hh, hj, hp, h0, j0, p0, ne_eq, not_true_eq_false, decide_false, decide_true,
    not_false_eq_true, List.foldr, insertDesc]
  all_goals (try simp only [hh, hj, hp])
  all_goals (repeat' split)
  all_goals (try simp only [insertDesc, hh, hj, hp])
  all_goals (repeat' split)
  all_goals (first | (simp_all [formOf_html, formOf_json, formOf_plain]; done) | (exfalso; simp only [true_and, false_and, not_false_eq_true] at *; omega))

/-- `bestForm` is a form of maximal q whenever some form is acceptable, and plain text otherwise -/
theorem bestForm_max (q : Text → Nat) :
    (q mimeHtml = 0 ∧ q mimeJson = 0 ∧ q mimePlain = 0 → bestForm q = .plain) ∧
    (¬ (q mimeHtml = 0 ∧ q mimeJson = 0 ∧ q mimePlain = 0) →
      q (contentTypeOf (bestForm q)) ≠ 0 ∧ ∀ f, q (contentTypeOf f) ≤ q (contentTypeOf (bestForm q))) := by
  unfold bestForm
  constructor
  · rintro ⟨a, b, c⟩; simp [a, b, c]
  · intro hne
    simp only []
    split
    · rename_i h; refine ⟨h.1, fun f => ?_⟩; cases f <;> simp [contentTypeOf] <;> omega
    · split
      · rename_i h1 h2; refine ⟨h2.1, fun f => ?_⟩; cases f <;> simp [contentTypeOf] <;> omega
      · rename_i h1 h2
        refine ⟨?_, fun f => ?_⟩
        · simp only [contentTypeOf]; omega
        · cases f <;> simp [contentTypeOf] <;> omega

end Pyr.HttpExc
