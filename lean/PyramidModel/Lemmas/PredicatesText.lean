import PyramidModel.Lemmas.PredicatesSort
/-! X06 helper lemmas: `strip`, `joinWith` is injective on joiner-free elements, `parseParam`. -/
namespace Pyr.Pred
open Pyr

/-! ### strip -/

/-- no white space at either end -/
def Trimmed (t : Text) : Prop := (∀ c, t.head? = some c → isPySpace c = false) ∧ (∀ c, t.getLast? = some c → isPySpace c = false)

def AllSpace (w : Text) : Prop := ∀ c ∈ w, isPySpace c = true

theorem stripL_append_space : ∀ (w t : Text), AllSpace w → stripL (w ++ t) = stripL t
  | [], _, _ => rfl
  | c :: cs, t, h => by
    have hc : isPySpace c = true := h c List.mem_cons_self
    simp only [List.cons_append, stripL, hc, if_true]
    exact stripL_append_space cs t (fun x hx => h x (List.mem_cons_of_mem _ hx))

theorem stripL_of_head (t : Text) (h : ∀ c, t.head? = some c → isPySpace c = false) : stripL t = t := by
  cases t with
  | nil => rfl
  | cons c cs => simp [stripL, h c rfl]

theorem allSpace_reverse {w : Text} (h : AllSpace w) : AllSpace w.reverse := fun c hc => h c (List.mem_reverse.mp hc)

/-- padding with white space on both sides is removed, the trimmed core is kept -/
theorem strip_pad (w₁ w₂ k : Text) (h₁ : AllSpace w₁) (h₂ : AllSpace w₂) (hk : Trimmed k) : strip (w₁ ++ k ++ w₂) = k := by
  unfold strip
  rw [List.append_assoc, stripL_append_space w₁ _ h₁]
  cases k with
  | nil =>
    simp only [List.nil_append]
    have : stripL w₂ = [] := by
      have := stripL_append_space w₂ [] h₂
      simpa [stripL] using this
    rw [this]; rfl
  | cons c cs =>
    have e1 : stripL ((c :: cs) ++ w₂) = (c :: cs) ++ w₂ := stripL_of_head _ (fun x hx => hk.1 x (by simpa using hx))
    rw [e1, List.reverse_append, stripL_append_space _ _ (allSpace_reverse h₂)]
    rw [stripL_of_head _ (fun x hx => hk.2 x (by rw [List.head?_reverse] at hx; exact hx))]
    exact List.reverse_reverse _

theorem strip_of_trimmed (k : Text) (hk : Trimmed k) : strip k = k := by
  simpa using strip_pad [] [] k (fun _ h => by cases h) (fun _ h => by cases h) hk

theorem stripL_head (t : Text) : ∀ c, (stripL t).head? = some c → isPySpace c = false := by
  induction t with
  | nil => intro c h; cases h
  | cons x xs ih =>
    intro c h
    simp only [stripL] at h
    by_cases hx : isPySpace x = true
    · simp only [hx, if_true] at h; exact ih c h
    · simp only [hx] at h
      simp at h
      rw [← h]; simpa using hx

theorem stripL_suffix (t : Text) : ∃ w, AllSpace w ∧ t = w ++ stripL t := by
  induction t with
  | nil => exact ⟨[], ⟨fun _ h => (by cases h), rfl⟩⟩
  | cons x xs ih =>
    by_cases hx : isPySpace x = true
    · obtain ⟨w, hw, e⟩ := ih
      refine ⟨x :: w, ?_, ?_⟩
      · intro c hc
        rcases List.mem_cons.mp hc with rfl | hc
        · exact hx
        · exact hw c hc
      · simp only [stripL, hx, if_true, List.cons_append]
        rw [← e]
    · exact ⟨[], ⟨fun _ h => (by cases h), by simp [stripL, hx]⟩⟩

/-- `strip` returns a trimmed text -/
theorem strip_trimmed (t : Text) : Trimmed (strip t) := by
  unfold strip
  constructor
  · intro c hc
    rw [List.head?_reverse] at hc
    -- the last character of stripL (reverse (stripL t)): comes from stripL t's head side
    obtain ⟨w, hw, e⟩ := stripL_suffix (stripL t).reverse
    have hrev : stripL t = (stripL (stripL t).reverse).reverse ++ w.reverse := by
      have := congrArg List.reverse e
      simpa [List.reverse_append] using this
    cases hs : (stripL (stripL t).reverse).reverse with
    | nil =>
      have : (stripL (stripL t).reverse) = [] := by simpa using congrArg List.reverse hs
      rw [this] at hc; cases hc
    | cons y ys =>
      have hh : (stripL t).head? = some y := by rw [hrev, hs]; rfl
      have hy := stripL_head t y hh
      have : (stripL (stripL t).reverse).getLast? = some y := by
        have := congrArg List.head? hs
        rw [List.head?_reverse] at this
        simpa using this
      rw [this] at hc
      cases hc
      exact hy
  · intro c hc
    rw [List.getLast?_reverse] at hc
    exact stripL_head _ c hc

theorem strip_idem (t : Text) : strip (strip t) = strip t := strip_of_trimmed _ (strip_trimmed t)

/-! ### joinWith -/

theorem append_cons_inj_of_not_mem {c : Char} : ∀ {x y r₁ r₂ : Text}, c ∉ x → c ∉ y → x ++ c :: r₁ = y ++ c :: r₂ → x = y ∧ r₁ = r₂
  | [], [], _, _, _, _, h => by simp at h; exact ⟨rfl, h⟩
  | [], b :: y, _, _, _, hy, h => by
    simp at h
    exact absurd (h.1 ▸ List.mem_cons_self) hy
  | a :: x, [], _, _, hx, _, h => by
    simp at h
    exact absurd (h.1 ▸ List.mem_cons_self) hx
  | a :: x, b :: y, r₁, r₂, hx, hy, h => by
    simp at h
    have := append_cons_inj_of_not_mem (fun hm => hx (List.mem_cons_of_mem _ hm)) (fun hm => hy (List.mem_cons_of_mem _ hm)) h.2
    exact ⟨by rw [h.1, this.1], this.2⟩

theorem joinWith_cons_cons (sep x y : Text) (ys : List Text) : joinWith sep (x :: y :: ys) = x ++ sep ++ joinWith sep (y :: ys) := rfl

theorem joinWith_ne_nil {sep : Text} : ∀ {l : List Text}, l ≠ [] → (∀ x ∈ l, x ≠ []) → joinWith sep l ≠ []
  | [], h, _ => absurd rfl h
  | [x], _, hx => by simpa [joinWith] using hx x List.mem_cons_self
  | x :: y :: ys, _, hx => by
    rw [joinWith_cons_cons]
    intro h
    have := hx x List.mem_cons_self
    simp at h
    exact this h.1

/-- A joined text determines its elements when no element is empty or contains the first character of the joiner. -/
theorem joinWith_inj (c : Char) (tl : Text) : ∀ (l₁ l₂ : List Text),
    (∀ x ∈ l₁, x ≠ [] ∧ c ∉ x) → (∀ x ∈ l₂, x ≠ [] ∧ c ∉ x) → joinWith (c :: tl) l₁ = joinWith (c :: tl) l₂ → l₁ = l₂
  | [], [], _, _, _ => rfl
  | [], y :: ys, _, h₂, h => by
    exact absurd h.symm (joinWith_ne_nil (by simp) (fun x hx => (h₂ x hx).1))
  | x :: xs, [], h₁, _, h => by
    exact absurd h (joinWith_ne_nil (by simp) (fun x hx => (h₁ x hx).1))
  | [x], [y], _, _, h => by simp [joinWith] at h; rw [h]
  | [x], y :: y' :: ys, h₁, h₂, h => by
    rw [joinWith_cons_cons] at h
    simp only [joinWith] at h
    have : c ∈ x := by rw [h]; simp
    exact absurd this (h₁ x List.mem_cons_self).2
  | x :: x' :: xs, [y], h₁, h₂, h => by
    rw [joinWith_cons_cons] at h
    simp only [joinWith] at h
    have : c ∈ y := by rw [← h]; simp
    exact absurd this (h₂ y List.mem_cons_self).2
  | x :: x' :: xs, y :: y' :: ys, h₁, h₂, h => by
    rw [joinWith_cons_cons, joinWith_cons_cons] at h
    simp only [List.append_assoc, List.cons_append] at h
    have := append_cons_inj_of_not_mem (h₁ x List.mem_cons_self).2 (h₂ y List.mem_cons_self).2 h
    have ht := List.append_cancel_left this.2
    have ih := joinWith_inj c tl (x' :: xs) (y' :: ys) (fun z hz => h₁ z (List.mem_cons_of_mem _ hz))
      (fun z hz => h₂ z (List.mem_cons_of_mem _ hz)) ht
    rw [this.1, ih]

/-! ### the request_param parser -/

/-- The documented reading in one clause: the `=` is looked for from the SECOND character on. -/
theorem parseParam_unified (p : Text) :
    parseParam p = match p with
      | [] => ([], none)
      | c :: rest =>
        match splitFirst '=' rest with
        | some (a, b) => (strip (c :: a), some (strip b))
        | none => (p, none) := by
  cases p with
  | nil => rfl
  | cons c rest =>
    by_cases hc : c = '='
    · subst hc; rfl
    · have e : parseParam (c :: rest) = (match splitFirst '=' (c :: rest) with
          | some (a, b) => (strip a, some (strip b))
          | none => (c :: rest, none)) := by
        unfold parseParam
        split
        · rename_i h; cases h; exact absurd rfl hc
        · rfl
      rw [e]
      simp only [splitFirst, hc, if_false]
      cases splitFirst '=' rest with
      | none => rfl
      | some q => rfl

/-- presence-only form: no `=` after the first character -/
theorem parseParam_presence (c : Char) (rest : Text) (h : '=' ∉ rest) : parseParam (c :: rest) = (c :: rest, none) := by
  rw [parseParam_unified]
  simp only
  rw [(splitFirst_none_iff '=' rest).mpr h]

/-- `key = value` round trip: any white space around a trimmed, non-empty key without `=` and a trimmed value -/
theorem parseParam_roundtrip (w₁ w₂ w₃ w₄ k v : Text) (hw₁ : AllSpace w₁) (hw₂ : AllSpace w₂) (hw₃ : AllSpace w₃)
    (hw₄ : AllSpace w₄) (hk : Trimmed k) (hv : Trimmed v) (hne : k ≠ []) (heq : '=' ∉ k) :
    parseParam (w₁ ++ k ++ w₂ ++ '=' :: (w₃ ++ v ++ w₄)) = (k, some v) := by
  have hsp : ∀ w, AllSpace w → '=' ∉ w := fun w hw hm => by
    have := hw _ hm
    revert this; decide
  cases hp : w₁ ++ k ++ w₂ with
  | nil =>
    cases w₁ <;> cases k <;> simp at hp
    exact absurd rfl hne
  | cons c a =>
    rw [parseParam_unified]
    simp only [List.cons_append]
    have hnot : '=' ∉ (c :: a) := by
      rw [← hp]
      simp only [List.mem_append, not_or]
      exact ⟨⟨hsp w₁ hw₁, heq⟩, hsp w₂ hw₂⟩
    have : splitFirst '=' (a ++ '=' :: (w₃ ++ v ++ w₄)) = some (a, w₃ ++ v ++ w₄) :=
      (splitFirst_some_iff '=' _ a _).mpr ⟨rfl, fun hm => hnot (List.mem_cons_of_mem _ hm)⟩
    rw [this]
    simp only
    rw [← hp, strip_pad w₁ w₂ k hw₁ hw₂ hk, strip_pad w₃ w₄ v hw₃ hw₄ hv]

/-- a key that itself starts with `=` (no padding before it) -/
theorem parseParam_roundtrip_eqkey (w₂ w₃ w₄ k v : Text) (hw₂ : AllSpace w₂) (hw₃ : AllSpace w₃) (hw₄ : AllSpace w₄)
    (hk : Trimmed ('=' :: k)) (hv : Trimmed v) (heq : '=' ∉ k) :
    parseParam ('=' :: k ++ w₂ ++ '=' :: (w₃ ++ v ++ w₄)) = ('=' :: k, some v) := by
  have hsp : ∀ w, AllSpace w → '=' ∉ w := fun w hw hm => by
    have := hw _ hm
    revert this; decide
  rw [parseParam_unified]
  simp only [List.cons_append]
  have : splitFirst '=' (k ++ w₂ ++ '=' :: (w₃ ++ v ++ w₄)) = some (k ++ w₂, w₃ ++ v ++ w₄) :=
    (splitFirst_some_iff '=' _ _ _).mpr ⟨rfl, by simp only [List.mem_append, not_or]; exact ⟨heq, hsp w₂ hw₂⟩⟩
  rw [this]
  simp only
  have e := strip_pad [] w₂ ('=' :: k) (fun _ h => by cases h) hw₂ hk
  simp only [List.nil_append, List.cons_append] at e
  rw [e, strip_pad w₃ w₄ v hw₃ hw₄ hv]

/-- whatever the text, a parsed `key=value` has both sides trimmed -/
theorem parseParam_trimmed (p k v : Text) (h : parseParam p = (k, some v)) : Trimmed k ∧ Trimmed v := by
  rw [parseParam_unified] at h
  cases p with
  | nil => cases h
  | cons c rest =>
    simp only at h
    cases hs : splitFirst '=' rest with
    | none => rw [hs] at h; cases h
    | some q =>
      obtain ⟨a, b⟩ := q
      rw [hs] at h
      simp only at h
      cases h
      exact ⟨strip_trimmed _, strip_trimmed _⟩

end Pyr.Pred
