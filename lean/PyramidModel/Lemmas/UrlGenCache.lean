import PyramidModel.Lemmas.UrlGenProps
/-! C06 helper lemmas, part 6: the `lru_cache` in front of `_join_elements` is transparent whenever the key
determines the result — which the key used since 9c714c3 (the elements' texts) does.
Property theorems are in `Props/C06.lean`. -/
namespace Pyr.UrlGen

open Pyr Pyr.Trav Pyr.Pct Pyr.Route

/-- equal keys, equal results -/
def KeyDetermines {κ : Type} (key : Atom → κ) : Prop :=
  ∀ xs ys : List Atom, xs.map key = ys.map key → joinElements xs = joinElements ys

/-- every entry of the cache is the uncached result of every element tuple with that key -/
def CacheOk {κ : Type} [DecidableEq κ] (key : Atom → κ) (cache : List (List κ × Text)) : Prop :=
  ∀ ks t, cache.lookup ks = some t → ∀ elems : List Atom, elems.map key = ks → joinElements elems = .ok t

theorem cacheOk_nil {κ : Type} [DecidableEq κ] (key : Atom → κ) : CacheOk key [] := by
  intro ks t h; simp [List.lookup] at h

theorem joinMemo_ok {κ : Type} [DecidableEq κ] (key : Atom → κ) (hk : KeyDetermines key)
    (cache : List (List κ × Text)) (hc : CacheOk key cache) (elems : List Atom) :
    (joinMemo key cache elems).1 = joinElements elems ∧ CacheOk key (joinMemo key cache elems).2 := by
  unfold joinMemo
  cases hl : cache.lookup (elems.map key) with
  | some t => exact ⟨(hc _ t hl elems rfl).symm, hc⟩
  | none =>
    simp only []
    cases hj : joinElements elems with
    | error e => exact ⟨rfl, hc⟩
    | ok t =>
      refine ⟨rfl, ?_⟩
      intro ks t' hl' elems' he'
      by_cases e : ks = elems.map key
      · subst e
        simp only [List.lookup, beq_self_eq_true, Option.some.injEq] at hl'
        subst hl'
        rw [hk elems' elems he', hj]
      · have hb : (ks == elems.map key) = false := by simpa using e
        simp only [List.lookup, hb] at hl'
        exact hc ks t' hl' elems' he'

theorem cacheAfterCalls_ok {κ : Type} [DecidableEq κ] (key : Atom → κ) (hk : KeyDetermines key) :
    ∀ (history : List (List Atom)) (cache : List (List κ × Text)), CacheOk key cache →
      CacheOk key (cacheAfterCalls key cache history)
  | [], _, hc => hc
  | h :: hs, cache, hc => cacheAfterCalls_ok key hk hs _ (joinMemo_ok key hk cache hc h).2

/-- whatever was asked before, the memoised joiner answers what the plain one answers -/
theorem memo_transparent {κ : Type} [DecidableEq κ] (key : Atom → κ) (hk : KeyDetermines key)
    (history : List (List Atom)) (elems : List Atom) :
    (joinMemo key (cacheAfterCalls key [] history) elems).1 = joinElements elems :=
  (joinMemo_ok key hk _ (cacheAfterCalls_ok key hk history [] (cacheOk_nil key)) elems).1

/-! ### the key used since 9c714c3 determines the result -/

/-- the text `quote_path_segment` quotes for a key -/
def keyText : TKey → Option Text
  | .text t => some t
  | .bytes b => utf8Dec b

def qKey (k : TKey) : Except Err Text :=
  match keyText k with
  | some t => .ok (quote elemSafe t)
  | none => .error .unicodeDecode

def qKeys : List TKey → Except Err (List Text)
  | [] => .ok []
  | k :: ks =>
    match qKey k with
    | .error e => .error e
    | .ok t =>
      match qKeys ks with
      | .error e => .error e
      | .ok ts => .ok (t :: ts)

theorem qElem_key (a : Atom) : qElem a = qKey (atomTKey a) := by
  cases a <;> rfl

theorem qElems_keys : ∀ (xs : List Atom), qElems xs = qKeys (xs.map atomTKey)
  | [] => rfl
  | a :: as => by
    simp only [qElems, qKeys, List.map_cons, qElem_key, qElems_keys as]
    cases qKey (atomTKey a) with
    | error e => rfl
    | ok t => cases qKeys (as.map atomTKey) <;> rfl

theorem atomTKey_determines : KeyDetermines atomTKey := by
  intro xs ys h
  unfold joinElements
  rw [qElems_keys, qElems_keys, h]

/-! ### route level -/

theorem routeSuffix_eq (path : Text) (elems : List Atom) :
    routeSuffix path elems =
      if elems = [] then .ok []
      else match joinElements elems with
        | .error e => .error e
        | .ok j => .ok (if endsWithSlash path then j else '/' :: j) := by
  unfold routeSuffix joinElements
  split
  · rfl
  · cases qElems elems <;> rfl

theorem routeSuffixMemo_ok (cache : ElemCache) (hc : CacheOk atomTKey cache) (path : Text) (elems : List Atom) :
    (routeSuffixMemo cache path elems).1 = routeSuffix path elems := by
  rw [routeSuffix_eq]
  unfold routeSuffixMemo joinElementsMemo
  by_cases he : elems = []
  · simp [he]
  · simp only [he, if_false]
    have h := (joinMemo_ok atomTKey atomTKey_determines cache hc elems).1
    cases hm : joinMemo atomTKey cache elems with
    | mk r c =>
      rw [hm] at h
      simp only [] at h
      subst h
      cases joinElements elems <;> rfl

end Pyr.UrlGen
