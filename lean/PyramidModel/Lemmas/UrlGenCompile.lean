import PyramidModel.Lemmas.UrlGenProps
/-! C06 helper lemmas, part 5: what `_compile_route` guarantees about its tokens (a leading literal that begins with
`/`; identifier names, hence no parentheses) and that an `int` is always a legal `{name}` value.
Property theorems are in `Props/C06.lean`. -/
namespace Pyr.UrlGen

open Pyr Pyr.Trav Pyr.Pct Pyr.Route
open Pyr.Rx (Ucd)

theorem intText_ok (i : Int) : intText i ≠ [] ∧ '/' ∉ intText i := by
  have hd : ∀ n, '/' ∉ Nat.toDigits 10 n := by
    intro n hm
    have := Nat.isDigit_of_mem_toDigits (by decide) (by decide) hm
    exact absurd this (by decide)
  cases i with
  | ofNat n => exact ⟨Nat.toDigits_ne_nil, hd n⟩
  | negSucc n =>
    refine ⟨by simp [intText], ?_⟩
    simp only [intText, List.mem_cons, not_or]
    exact ⟨by decide, hd _⟩

theorem int_value_ok (i : Int) : phValueOk (.one (.int i)) = true := by
  have := intText_ok i
  simp [phValueOk, atomText, this.1, this.2]

theorem ident_plain (n : Text) (h : isIdentA n = true) : ∀ c ∈ n, c ≠ '(' ∧ c ≠ ')' := by
  cases n with
  | nil => simp [isIdentA] at h
  | cons c cs =>
    simp only [isIdentA, Bool.and_eq_true, List.all_eq_true] at h
    intro d hd
    rcases List.mem_cons.mp hd with rfl | hm
    · have := h.1
      constructor
      · rintro rfl; exact absurd this (by decide)
      · rintro rfl; exact absurd this (by decide)
    · have := h.2 d hm
      constructor
      · rintro rfl; exact absurd this (by decide)
      · rintro rfl; exact absurd this (by decide)

theorem compile_names_plain (u : Ucd) (lib : Lib) (route : Text) (toks : List Tok)
    (h : compileRoute u lib route = .ok toks) : namesPlain toks = true := by
  have hid : (tokNames toks).all isIdentA = true := by
    unfold compileRoute at h
    split at h
    · cases h
    · unfold checkNames at h
      split at h
      · cases h
      · split at h
        · cases h
        · rename_i hn
          injection h with h
          subst h
          simp only [Bool.not_eq_true, Bool.not_eq_false', Bool.and_eq_true] at hn
          simpa using hn.1
  unfold namesPlain
  rw [List.all_eq_true] at hid ⊢
  intro n hn
  have := ident_plain n (hid n hn)
  simp only [Bool.and_eq_true, Bool.not_eq_true', List.contains_eq_mem, decide_eq_false_iff_not]
  exact ⟨fun hm => (this _ hm).1 rfl, fun hm => (this _ hm).2 rfl⟩


theorem splitLastStar_head (s b t : Text) (h : splitLastStar s = some (b, t)) (hs : s.head? = some '/') :
    b.head? = some '/' := by
  unfold splitLastStar at h
  simp only [] at h
  cases hd : s.reverse.dropWhile (· ≠ '*') with
  | nil => rw [hd] at h; cases h
  | cons star bf =>
    rw [hd] at h
    simp only [Option.some.injEq, Prod.mk.injEq] at h
    obtain ⟨rfl, _⟩ := h
    have hsplit : s.reverse = s.reverse.takeWhile (· ≠ '*') ++ star :: bf := by
      rw [← hd]; exact (List.takeWhile_append_dropWhile).symm
    have hstar : star = '*' := by
      have := List.head_dropWhile_not (p := (· ≠ '*')) (l := s.reverse) (by rw [hd]; simp)
      simp only [hd, List.head_cons] at this
      simpa using this
    have hs2 : s = bf.reverse ++ (star :: (s.reverse.takeWhile (· ≠ '*')).reverse) := by
      have := congrArg List.reverse hsplit
      simpa using this
    cases hb : bf.reverse with
    | nil =>
      rw [hb] at hs2
      rw [hs2, hstar] at hs
      simp at hs
    | cons c r =>
      rw [hb] at hs2
      rw [hs2] at hs
      simpa using hs

theorem nextPh_head : ∀ (s l ct r : Text), s.head? = some '/' → nextPh s = some (l, ct, r) → l.head? = some '/'
  | [], _, _, _, h, _ => by simp at h
  | c :: cs, l, ct, r, h, hn => by
    simp only [List.head?_cons, Option.some.injEq] at h
    subst h
    simp only [nextPh, phAtHead] at hn
    cases hq : nextPh cs with
    | none => simp [hq] at hn
    | some x =>
      simp only [hq, Option.map_some, Option.some.injEq, Prod.mk.injEq] at hn
      obtain ⟨rfl, _⟩ := hn
      rfl

theorem starAtEnd_head (u : Ucd) (s b t : Text) (h : starAtEnd u s = some (b, t)) (hs : s.head? = some '/') :
    b.head? = some '/' := by
  unfold starAtEnd at h
  cases hsl : splitLastStar s with
  | none => rw [hsl] at h; cases h
  | some bt =>
    obtain ⟨b', t'⟩ := bt
    rw [hsl] at h
    have key : ∀ (c : Bool), (if c = true then some (b', t') else none) = some (b, t) → b' = b := by
      intro c hc
      cases c
      · simp at hc
      · simp only [if_true, Option.some.injEq, Prod.mk.injEq] at hc; exact hc.1
    have hb := key _ h
    subst hb
    exact splitLastStar_head s _ _ hsl hs

theorem splitRoute_head (s : Text) (hs : s.head? = some '/') : (splitRoute s).1.head? = some '/' := by
  unfold splitRoute
  cases hn : nextPh s with
  | none => exact hs
  | some x =>
    obtain ⟨l, ct, r⟩ := x
    exact nextPh_head s l ct r hs hn

theorem parseRoute_pfx_head (u : Ucd) (route : Text) : (parseRoute u route).pfx.head? = some '/' := by
  unfold parseRoute
  simp only []
  generalize (if hasOld route && (nextPh route).isNone then oldRewrite u false route else route) = r1
  have hr2 : (if r1.head? = some '/' then r1 else '/' :: r1).head? = some '/' := by
    split
    · assumption
    · rfl
  generalize (if r1.head? = some '/' then r1 else '/' :: r1) = r2 at hr2 ⊢
  cases hst : starAtEnd u r2 with
  | none => exact splitRoute_head r2 hr2
  | some bt =>
    obtain ⟨b, t⟩ := bt
    exact splitRoute_head b (starAtEnd_head u r2 b t hst hr2)

theorem compile_lead_slash (u : Ucd) (lib : Lib) (route : Text) (toks : List Tok)
    (h : compileRoute u lib route = .ok toks) : leadSlash toks = true := by
  unfold compileRoute at h
  split at h
  · cases h
  · unfold checkNames at h
    split at h
    · cases h
    · split at h
      · cases h
      · injection h with h
        subst h
        have hp := parseRoute_pfx_head u route
        cases hpf : (parseRoute u route).pfx with
        | nil => rw [hpf] at hp; simp at hp
        | cons c cs =>
          rw [hpf] at hp
          simp only [List.head?_cons, Option.some.injEq] at hp
          subst hp
          rfl

end Pyr.UrlGen
