import PyramidModel.Lemmas.ViewLookupCall
/-! Helper lemmas for C03: structure of the candidate list, `order` arithmetic, predicate helpers. -/
namespace Pyr.ViewLookup

/-! ### candidates over explicit resolution orders -/

/-- the candidates contributed by one slot -/
def slotCands (regs : List ViewReg) (classifier : Nat) (r : Request) (q c : Nat) : List DView :=
  slotCandidates (inForce (slotRegs regs ⟨classifier, q, c, r.viewName⟩)) r

/-- candidates when the request-interface order is `qs` and the context order is `cs` -/
def candidatesOn (regs : List ViewReg) (classifier : Nat) (r : Request) (qs cs : List Nat) : List DView :=
  qs.flatMap fun q => cs.flatMap fun c => slotCands regs classifier r q c

theorem candidates_eq_on (regs : List ViewReg) (classifier : Nat) (r : Request) :
    candidates regs classifier r = candidatesOn regs classifier r r.reqSro r.ctxSro := by
  simp only [candidates, specPairs, candidatesOn, slotCands, List.flatMap_assoc, List.flatMap_map]

theorem candidatesOn_append_req (regs : List ViewReg) (classifier : Nat) (r : Request) (A B cs : List Nat) :
    candidatesOn regs classifier r (A ++ B) cs
      = candidatesOn regs classifier r A cs ++ candidatesOn regs classifier r B cs := by
  simp [candidatesOn, List.flatMap_append]

theorem candidatesOn_append_ctx (regs : List ViewReg) (classifier : Nat) (r : Request) (q : Nat) (C D : List Nat) :
    candidatesOn regs classifier r [q] (C ++ D)
      = candidatesOn regs classifier r [q] C ++ candidatesOn regs classifier r [q] D := by
  simp [candidatesOn, List.flatMap_append]

theorem mem_slotCandidates (es : List DView) (r : Request) (x : DView) (h : x ∈ slotCandidates es r) : x ∈ es := by
  match es, h with
  | [e], h => simpa [slotCandidates] using h
  | e1 :: e2 :: rest, h =>
    simp only [slotCandidates, List.mem_append, List.mem_flatMap] at h
    rcases h with ⟨o, _, hx⟩ | hx
    · exact (List.mem_filter.mp ((mem_sortL _ _ _).mp hx)).1
    · exact (List.mem_filter.mp ((mem_sortL _ _ _).mp hx)).1

theorem mem_slotCands (regs : List ViewReg) (classifier : Nat) (r : Request) (q c : Nat) (x : DView)
    (h : x ∈ slotCands regs classifier r q c) :
    ∃ reg ∈ regs, x = derive reg ∧ reg.key = ⟨classifier, q, c, r.viewName⟩ := by
  have h1 := mem_inForce _ _ (mem_slotCandidates _ _ _ h)
  simp only [slotRegs, List.mem_map, List.mem_filter, decide_eq_true_eq] at h1
  obtain ⟨reg, ⟨hreg, hk⟩, rfl⟩ := h1
  exact ⟨reg, hreg, rfl, hk⟩

theorem mem_candidates (regs : List ViewReg) (classifier : Nat) (r : Request) (x : DView)
    (h : x ∈ candidates regs classifier r) :
    ∃ reg ∈ regs, x = derive reg ∧ reg.classifier = classifier ∧ reg.name = r.viewName ∧
      reg.reqIface ∈ r.reqSro ∧ reg.ctxIface ∈ r.ctxSro := by
  rw [candidates_eq_on] at h
  simp only [candidatesOn, List.mem_flatMap] at h
  obtain ⟨q, hq, c, hc, hx⟩ := h
  obtain ⟨reg, hreg, rfl, hk⟩ := mem_slotCands _ _ _ _ _ _ hx
  refine ⟨reg, hreg, rfl, ?_⟩
  simp only [ViewReg.key, SlotKey.mk.injEq] at hk
  obtain ⟨h1, h2, h3, h4⟩ := hk
  exact ⟨h1, h4, h2 ▸ hq, h3 ▸ hc⟩

/-! ### a slot without `accept=` views: candidates = the views in force sorted by `order` -/

theorem slotCandidates_no_accept (es : List DView) (r : Request) (h : ∀ e ∈ es, e.accept = none) :
    slotCandidates es r = sortL byOrder es := by
  match es, h with
  | [], _ => rfl
  | [e], _ => rfl
  | e1 :: e2 :: rest, h =>
    have hacc : specAccepts (e1 :: e2 :: rest) = [] := by
      rw [specAccepts_eq]
      have : (e1 :: e2 :: rest).filterMap (·.accept) = [] := by
        rw [List.filterMap_eq_nil_iff]
        intro a ha; exact h a ha
      rw [this]; rfl
    have hfil : (e1 :: e2 :: rest).filter (·.accept = none) = e1 :: e2 :: rest := by
      rw [List.filter_eq_self]
      intro a ha; simp [h a ha]
    simp only [slotCandidates, hacc, acceptable_nil, List.flatMap_nil, List.nil_append, hfil]

/-- in a list sorted by `order`, a member with a strictly smaller order stands before -/
theorem before_of_sorted (l : List DView) (hs : SortedBy byOrder l) (u v : DView) (hu : u ∈ l) (hv : v ∈ l)
    (hlt : u.order < v.order) : ∃ a b, l = a ++ u :: b ∧ v ∈ b := by
  obtain ⟨a, b, rfl⟩ := List.append_of_mem hu
  refine ⟨a, b, rfl, ?_⟩
  rcases List.mem_append.mp hv with hva | hvb
  · have := (sortedBy_append hs).2.2 v hva u (List.mem_cons_self ..)
    simp only [byOrder, decide_eq_true_eq] at this
    omega
  · rcases List.mem_cons.mp hvb with rfl | hvb
    · omega
    · exact hvb

/-! ### `order` arithmetic -/

/-- the arithmetic heart of `PredicateList.make`'s ordering claim -/
theorem order_lt_of_more (M s1 s2 n1 n2 : Nat) (hn : n2 < n1) (hM : (s2 + n2 + 1) * (n2 + 1) + s2 ≤ M) :
    (M - s1) / (n1 + 1) < (M - s2) / (n2 + 1) := by
  have hpos : 0 < n2 + 1 := by omega
  -- x := (M - s2) / (n2 + 1) ≥ s2 + n2 + 1
  have hx : s2 + n2 + 1 ≤ (M - s2) / (n2 + 1) := by
    rw [Nat.le_div_iff_mul_le hpos]; omega
  -- (M - s1)/(n1+1) ≤ M/(n2+2)
  have h1 : (M - s1) / (n1 + 1) ≤ M / (n2 + 2) := by
    calc (M - s1) / (n1 + 1) ≤ M / (n1 + 1) := Nat.div_le_div_right (by omega)
      _ ≤ M / (n2 + 2) := Nat.div_le_div_left (by omega) (by omega)
  -- M/(n2+2) < x
  have h2 : M / (n2 + 2) < (M - s2) / (n2 + 1) := by
    rw [Nat.div_lt_iff_lt_mul (by omega)]
    have hdm := Nat.div_add_mod (M - s2) (n2 + 1)
    have hmod := Nat.mod_lt (M - s2) hpos
    generalize (M - s2) / (n2 + 1) = x at *
    generalize (M - s2) % (n2 + 1) = m at *
    have : x * (n2 + 2) = (n2 + 1) * x + x := by
      rw [Nat.mul_comm]; simp [Nat.succ_mul]
    omega
  omega

theorem scoreOf_foldl_lt (ps : List Pred) (K s : Nat) (hs : s < 2 ^ K)
    (h : ∀ p ∈ ps, p.kind + Gen.C03.weightShiftPlus < K) :
    ps.foldl (fun s p => s ||| (1 <<< (p.kind + Gen.C03.weightShiftPlus))) s < 2 ^ K := by
  induction ps generalizing s with
  | nil => exact hs
  | cons p ps ih =>
    simp only [List.foldl_cons]
    apply ih
    · apply Nat.or_lt_two_pow hs
      rw [Nat.one_shiftLeft]
      exact Nat.pow_lt_pow_right (by omega) (h p (List.mem_cons_self ..))
    · intro q hq; exact h q (List.mem_cons_of_mem _ hq)

theorem scoreOf_lt (ps : List Pred) (K : Nat) (h : ∀ p ∈ ps, p.kind + Gen.C03.weightShiftPlus < K) :
    scoreOf ps < 2 ^ K :=
  scoreOf_foldl_lt ps K 0 (Nat.two_pow_pos K) h

theorem mkPredsFrom_kind (raw : List RawPred) (names : List String) (n : Nat) :
    ∀ p ∈ mkPredsFrom raw names n, n ≤ p.kind ∧ p.kind < n + names.length := by
  induction names generalizing n with
  | nil => intro p hp; simp [mkPredsFrom] at hp
  | cons name names ih =>
    intro p hp
    simp only [mkPredsFrom, List.mem_append, List.mem_map] at hp
    rcases hp with ⟨rp, _, rfl⟩ | hp
    · simp [mkPred]
    · have := ih (n + 1) p hp
      simp only [List.length_cons]; omega

theorem mkPreds_kind (raw : List RawPred) : ∀ p ∈ mkPreds raw, p.kind < Gen.C03.predNames.length := by
  intro p hp
  have := mkPredsFrom_kind raw Gen.C03.predNames 0 p hp
  omega

/-! ### text helpers -/

theorem mem_insertStr (s x : String) (l : List String) : x ∈ insertStr s l ↔ x = s ∨ x ∈ l := by
  induction l with
  | nil => simp [insertStr]
  | cons t ts ih =>
    simp only [insertStr]
    split
    · simp
    · split
      · rename_i _ hst
        subst hst
        simp
      · simp only [List.mem_cons, ih]
        constructor
        · rintro (h | h | h)
          · exact Or.inr (Or.inl h)
          · exact Or.inl h
          · exact Or.inr (Or.inr h)
        · rintro (h | h | h)
          · exact Or.inr (Or.inl h)
          · exact Or.inl h
          · exact Or.inr (Or.inr h)

theorem mem_sortedSet (x : String) (l : List String) : x ∈ sortedSet l ↔ x ∈ l := by
  induction l with
  | nil => simp [sortedSet]
  | cons t ts ih =>
    simp only [sortedSet, List.foldr_cons] at ih ⊢
    rw [mem_insertStr, ih]; simp

theorem sortedSet_single (s : String) : sortedSet [s] = [s] := rfl

theorem mem_normMethods (x : String) (vals : List String) :
    x ∈ normMethods vals ↔ x ∈ vals ∨ (x = "HEAD" ∧ "GET" ∈ vals) := by
  simp only [normMethods]
  split
  · rename_i h
    simp only [Bool.and_eq_true, List.contains_eq_mem, decide_eq_true_eq, Bool.not_eq_true',
      decide_eq_false_iff_not, mem_sortedSet] at h
    rw [mem_sortedSet, List.mem_append, mem_sortedSet]
    simp only [List.mem_singleton]
    constructor
    · rintro (h1 | h1)
      · exact Or.inl h1
      · exact Or.inr ⟨h1, h.1⟩
    · rintro (h1 | ⟨h1, _⟩)
      · exact Or.inl h1
      · exact Or.inr h1
  · rename_i h
    simp only [Bool.and_eq_true, List.contains_eq_mem, decide_eq_true_eq, Bool.not_eq_true',
      decide_eq_false_iff_not, mem_sortedSet, not_and, Decidable.not_not] at h
    rw [mem_sortedSet]
    constructor
    · exact Or.inl
    · rintro (h1 | ⟨h1, h2⟩)
      · exact h1
      · subst h1; exact h h2

theorem splitOnce_append (sep : Char) (k v : List Char) (hk : sep ∉ k) :
    splitOnce sep (k ++ sep :: v) = some (k, v) := by
  induction k with
  | nil => simp [splitOnce]
  | cons c cs ih =>
    have hc : c ≠ sep := fun e => hk (by simp [e])
    have hcs : sep ∉ cs := fun e => hk (by simp [e])
    simp only [List.cons_append, splitOnce]
    have : (c == sep) = false := by simpa using hc
    simp [this, ih hcs]

theorem splitOnce_none (sep : Char) (s : List Char) (h : sep ∉ s) : splitOnce sep s = none := by
  induction s with
  | nil => rfl
  | cons c cs ih =>
    have hc : (c == sep) = false := by
      have : c ≠ sep := fun e => h (by simp [e])
      simpa using this
    simp [splitOnce, hc, ih (fun e => h (by simp [e]))]

/-! ### registrations in force -/

theorem mem_upsert_iff (es : List DView) (b x : DView) :
    x ∈ upsert es b ↔ x = b ∨ (x ∈ es ∧ x.phash ≠ b.phash) := by
  simp only [upsert]
  split
  · rename_i hany
    obtain ⟨e0, he0, he0b⟩ := (any_phash_iff b es).mp hany
    simp only [List.mem_map]
    constructor
    · rintro ⟨e, he, rfl⟩
      by_cases h : e.phash = b.phash
      · simp [h]
      · simp [h, he]
    · rintro (rfl | ⟨hx, hne⟩)
      · exact ⟨e0, he0, by simp [he0b]⟩
      · exact ⟨x, hx, by simp [hne]⟩
  · rename_i hany
    simp only [List.mem_append, List.mem_singleton]
    constructor
    · rintro (hx | rfl)
      · exact Or.inr ⟨hx, fun h => hany ((any_phash_iff b es).mpr ⟨x, hx, h⟩)⟩
      · exact Or.inl rfl
    · rintro (rfl | ⟨hx, _⟩)
      · exact Or.inr rfl
      · exact Or.inl hx

/-- in force = the last registration of its phash -/
theorem mem_inForce_iff (vs : List DView) (x : DView) :
    x ∈ inForce vs ↔ ∃ pre post, vs = pre ++ x :: post ∧ ∀ y ∈ post, y.phash ≠ x.phash := by
  generalize hn : vs.length = n
  induction n generalizing vs with
  | zero =>
    have : vs = [] := List.eq_nil_of_length_eq_zero hn
    subst this
    simp [inForce]
  | succ n ih =>
    rcases List.eq_nil_or_concat vs with rfl | ⟨L, b, hvs⟩
    · simp at hn
    · rw [List.concat_eq_append] at hvs
      subst hvs
      have hL : L.length = n := by simp at hn; omega
      rw [inForce_append_single, mem_upsert_iff, ih L hL]
      constructor
      · rintro (rfl | ⟨⟨pre, post, rfl, hpost⟩, hne⟩)
        · exact ⟨L, [], by simp, by simp⟩
        · refine ⟨pre, post ++ [b], by simp, ?_⟩
          intro y hy
          rcases List.mem_append.mp hy with hy | hy
          · exact hpost y hy
          · simp at hy; subst hy; exact fun h => hne h.symm
      · rintro ⟨pre, post, heq, hpost⟩
        rcases List.eq_nil_or_concat post with rfl | ⟨post', b', hp⟩
        · have : L = pre ∧ b = x := by
            have := List.append_inj' (show L ++ [b] = pre ++ [x] from heq) rfl
            simpa using this
          exact Or.inl this.2.symm
        · rw [List.concat_eq_append] at hp
          subst hp
          have h2 : L ++ [b] = (pre ++ x :: post') ++ [b'] := by rw [heq]; simp
          have := List.append_inj' h2 rfl
          obtain ⟨hL', hb⟩ := this
          simp at hb; subst hb
          refine Or.inr ⟨⟨pre, post', hL', fun y hy => hpost y (by simp [hy])⟩, ?_⟩
          exact fun h => hpost b (by simp) h.symm
/-! ### completeness of the candidate list -/


theorem mem_addOffer (acc : List Offer) (a x : Offer) : x ∈ addOffer acc a ↔ x ∈ acc ∨ x = a := by
  simp only [addOffer]
  rw [mem_sortL]
  split
  · rename_i h
    have : a ∈ acc := by simpa using h
    constructor
    · exact Or.inl
    · rintro (h | rfl)
      · exact h
      · exact this
  · simp

theorem mem_specAccepts (es : List DView) (o : Offer) :
    o ∈ specAccepts es ↔ ∃ e ∈ es, e.accept = some o := by
  generalize hn : es.length = n
  induction n generalizing es with
  | zero =>
    have : es = [] := List.eq_nil_of_length_eq_zero hn
    subst this; simp [specAccepts]
  | succ n ih =>
    rcases List.eq_nil_or_concat es with rfl | ⟨L, b, hes⟩
    · simp at hn
    · rw [List.concat_eq_append] at hes
      subst hes
      have hL : L.length = n := by simp at hn; omega
      cases hb : b.accept with
      | none =>
        rw [specAccepts_append_none L b hb, ih L hL]
        constructor
        · rintro ⟨e, he, h⟩; exact ⟨e, by simp [he], h⟩
        · rintro ⟨e, he, h⟩
          rcases List.mem_append.mp he with he | he
          · exact ⟨e, he, h⟩
          · simp at he; subst he; rw [hb] at h; simp at h
      | some a =>
        rw [specAccepts_append_some L b a hb, mem_addOffer, ih L hL]
        constructor
        · rintro (⟨e, he, h⟩ | rfl)
          · exact ⟨e, by simp [he], h⟩
          · exact ⟨b, by simp, hb⟩
        · rintro ⟨e, he, h⟩
          rcases List.mem_append.mp he with he | he
          · exact Or.inl ⟨e, he, h⟩
          · simp at he; subst he; rw [hb] at h; simp at h; exact Or.inr h.symm

theorem mem_acceptable (r : Request) (l : List Offer) (o : Offer) :
    o ∈ acceptable r l ↔ o ∈ l ∧ 0 < r.q o.id := by
  simp [acceptable, mem_sortL, List.mem_filter]

/-- completeness of a slot's candidate list -/
theorem mem_slotCandidates_iff (es : List DView) (r : Request) (x : DView) :
    x ∈ slotCandidates es r ↔
      x ∈ es ∧ (es.length ≤ 1 ∨ x.accept = none ∨ ∃ o, x.accept = some o ∧ 0 < r.q o.id) := by
  match es with
  | [] => simp [slotCandidates]
  | [e] => simp [slotCandidates]
  | e1 :: e2 :: rest =>
    simp only [slotCandidates, List.mem_append, List.mem_flatMap, mem_sortL, List.mem_filter, mem_acceptable,
      mem_specAccepts, decide_eq_true_eq, List.length_cons]
    constructor
    · rintro (⟨o, ⟨_, hq⟩, hx, hacc⟩ | ⟨hx, hacc⟩)
      · exact ⟨hx, Or.inr (Or.inr ⟨o, hacc, hq⟩)⟩
      · exact ⟨hx, Or.inr (Or.inl hacc)⟩
    · rintro ⟨hx, h | h | ⟨o, hacc, hq⟩⟩
      · omega
      · exact Or.inr ⟨hx, h⟩
      · exact Or.inl ⟨o, ⟨⟨x, hx, hacc⟩, hq⟩, hx, hacc⟩

theorem mem_candidates_of_slot (regs : List ViewReg) (classifier : Nat) (r : Request) (q c : Nat) (x : DView)
    (hq : q ∈ r.reqSro) (hc : c ∈ r.ctxSro) (hx : x ∈ slotCands regs classifier r q c) :
    x ∈ candidates regs classifier r := by
  rw [candidates_eq_on]
  simp only [candidatesOn, List.mem_flatMap]
  exact ⟨q, hq, c, hc, hx⟩

theorem mkPredsFrom_mem (raw : List RawPred) (names : List String) (n0 : Nat) (rp : RawPred)
    (hrp : rp ∈ raw) (hname : rp.name ∈ names) : ∃ n, mkPred n rp ∈ mkPredsFrom raw names n0 := by
  induction names generalizing n0 with
  | nil => simp at hname
  | cons name names ih =>
    simp only [mkPredsFrom, List.mem_append, List.mem_map, List.mem_filter, decide_eq_true_eq]
    by_cases h : rp.name = name
    · exact ⟨n0, Or.inl ⟨rp, ⟨hrp, h⟩, rfl⟩⟩
    · have : rp.name ∈ names := by
        rcases List.mem_cons.mp hname with h1 | h1
        · exact absurd h1 h
        · exact h1
      obtain ⟨n, hn⟩ := ih (n0 + 1) this
      exact ⟨n, Or.inr hn⟩

/-- a derived view with an `accept=` option carries the accept predicate: it can only hold when the
request accepts the media type -/
theorem derive_accept_coherent (reg : ViewReg) (r : Request) (o : Offer)
    (ha : (derive reg).accept = some o) (hh : (derive reg).holds r = true) : 0 < r.q o.id := by
  simp only [derive, Option.map_eq_some_iff] at ha
  obtain ⟨⟨o', text⟩, hacc, rfl⟩ := ha
  have hmem : (⟨"accept", false, .accept o'.id text⟩ : RawPred) ∈ reg.raw := by
    simp [ViewReg.raw, hacc]
  obtain ⟨n, hn⟩ := mkPredsFrom_mem reg.raw Gen.C03.predNames 0 _ hmem
    (show "accept" ∈ Gen.C03.predNames by decide)
  have hall : ∀ p ∈ (derive reg).preds, p.eval r = true := by
    simpa [DView.holds, List.all_eq_true] using hh
  have := hall _ (by simpa [derive, mkPreds] using hn)
  simpa [mkPred, Pred.eval, mkCond, Cond.eval] using this

end Pyr.ViewLookup
