/-
X05 — the declarative reading the theorems of Props/X05.lean are stated against (core Lean only; linked into the driver,
which prints it next to the model's answers so that the harness compares the real code with the reading too).
-/
import PyramidModel.AuthPolicy

namespace Pyr.AuthPolicy

/-- what the policy's groupfinder says about the claimed user on this request: `none` — unknown user; no groupfinder —
known, no groups.  (Independent of the order in which the methods consult it.) -/
def groupsFor : Policy → Req → Prin → Groups
  | .remoteUser cb, _, u => match cb with
    | none => some []
    | some f => f u
  | .session _ cb, _, u => match cb with
    | none => some []
    | some f => f u
  | .repoze cb, req, _ => match req.identity with
    | none => none
    | some i => match cb with
      | none => some []
      | some f => f i
  | .basic check _, req, _ => match parseBasic req.authorization with
    | .creds u p => check u p
    | _ => none

/-- WHO the request is verified as, and with which groups: the claimed userid, provided it is not one of the two system
principals and the groupfinder knows it -/
def verified (pol : Policy) (req : Req) : R (Option (Prin × List Prin)) := do
  match ← unauthUserid pol req with
  | none => pure none
  | some u =>
    if u = everyone ∨ u = authenticated then pure none
    else match groupsFor pol req u with
      | none => pure none
      | some gs => pure (some (u, gs))

/-- the documented `authenticated_userid` -/
def specAuthUserid (pol : Policy) (req : Req) : R (Option Prin) := do
  pure ((← verified pol req).map (·.1))

/-- the documented `effective_principals`: `[Everyone]`, plus `[Authenticated, userid] + groups` for a verified user -/
def specPrincipals (pol : Policy) (req : Req) : R (List Prin) := do
  match ← verified pol req with
  | none => pure [everyone]
  | some (u, gs) => pure (everyone :: authenticated :: u :: gs)

/-- the repoze.who identity, when there is one, has the `'repoze.who.userid'` key (repoze.who always sets it) -/
def IdentOk (req : Req) : Prop := ∀ i, req.identity = some i → i.userid ≠ none

instance (req : Req) : Decidable (IdentOk req) := by
  unfold IdentOk
  cases h : req.identity with
  | none => exact isTrue (by simp)
  | some i => exact decidable_of_iff (i.userid ≠ none) (by simp)

/-- every character fits a WSGI string (PEP 3333: code points 0-255) -/
def Latin1 (t : Text) : Prop := ∀ c ∈ t, c.toNat < 256

instance (t : Text) : Decidable (Latin1 t) := by unfold Latin1; infer_instance

end Pyr.AuthPolicy
