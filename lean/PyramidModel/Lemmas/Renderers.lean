/-
X03 — adapter lookup against "nearest specification", `resolve` produces / preserves plain values.
-/
import PyramidModel.Lemmas.RenderersSpec

namespace Pyr.Render

/-! ### adapter dispatch -/

theorem lookup_some_iff (regs : Regs) : ∀ (sro : List Nat) (a : Nat),
    lookupAdapter regs sro = some a ↔ Nearest regs sro a
  | [], a => by
    simp only [lookupAdapter, Nearest]
    constructor
    · intro h; cases h
    · rintro ⟨pre, s, post, h, _⟩; cases pre <;> cases h
  | s :: rest, a => by
    simp only [lookupAdapter]
    cases hs : regFor regs s with
    | some b =>
      simp only [Option.some.injEq]
      constructor
      · rintro rfl; exact ⟨[], s, rest, rfl, hs, by simp⟩
      · rintro ⟨pre, s', post, he, hr, hpre⟩
        cases pre with
        | nil =>
          simp only [List.nil_append, List.cons.injEq] at he
          obtain ⟨rfl, _⟩ := he
          rw [hs] at hr; exact Option.some.inj hr
        | cons x pre' =>
          simp only [List.cons_append, List.cons.injEq] at he
          obtain ⟨rfl, _⟩ := he
          have := hpre s (by simp)
          rw [hs] at this; cases this
    | none =>
      simp only []
      rw [lookup_some_iff regs rest a]
      constructor
      · rintro ⟨pre, s', post, he, hr, hpre⟩
        refine ⟨s :: pre, s', post, by simp [he], hr, ?_⟩
        intro x hx
        simp only [List.mem_cons] at hx
        rcases hx with rfl | hx
        · exact hs
        · exact hpre x hx
      · rintro ⟨pre, s', post, he, hr, hpre⟩
        cases pre with
        | nil =>
          simp only [List.nil_append, List.cons.injEq] at he
          obtain ⟨rfl, _⟩ := he
          rw [hs] at hr; cases hr
        | cons x pre' =>
          simp only [List.cons_append, List.cons.injEq] at he
          obtain ⟨rfl, rfl⟩ := he
          exact ⟨pre', s', post, rfl, hr, fun y hy => hpre y (by simp [hy])⟩

theorem lookup_none_iff (regs : Regs) : ∀ (sro : List Nat),
    lookupAdapter regs sro = none ↔ ∀ s ∈ sro, regFor regs s = none
  | [] => by simp [lookupAdapter]
  | s :: rest => by
    simp only [lookupAdapter]
    cases hs : regFor regs s with
    | some b =>
      simp only [List.mem_cons, forall_eq_or_imp, hs]
      constructor
      · intro h; cases h
      · rintro ⟨h, _⟩; cases h
    | none =>
      simp only [List.mem_cons, forall_eq_or_imp, hs, true_and]
      exact lookup_none_iff regs rest

/-- a later registration for the same specification replaces the earlier one -/
theorem regFor_append_same (regs : Regs) (s a : Nat) : regFor (regs ++ [(s, a)]) s = some a := by
  simp [regFor]

/-- … and leaves every other specification alone -/
theorem regFor_append_other (regs : Regs) (s t a : Nat) (h : t ≠ s) : regFor (regs ++ [(t, a)]) s = regFor regs s := by
  simp [regFor, h]

/-! ### `resolve` -/

mutual
theorem resolve_of_plain (regs : Regs) : ∀ (v : Val), v.plain = true → resolve regs v = some v
  | .null, _ => by simp [resolve]
  | .bool _, _ => by simp [resolve]
  | .int _, _ => by simp [resolve]
  | .str _, _ => by simp [resolve]
  | .arr xs, h => by
    simp only [Val.plain] at h
    simp [resolve, resolveElems_of_plain regs xs h]
  | .obj ms, h => by
    simp only [Val.plain] at h
    simp [resolve, resolveMems_of_plain regs ms h]
  | .custom _ _ _, h => by simp [Val.plain] at h
theorem resolveElems_of_plain (regs : Regs) : ∀ (xs : Vals), xs.plain = true → resolveElems regs xs = some xs
  | .nil, _ => by simp [resolveElems]
  | .cons v r, h => by
    simp only [Vals.plain, Bool.and_eq_true] at h
    simp [resolveElems, resolve_of_plain regs v h.1, resolveElems_of_plain regs r h.2]
theorem resolveMems_of_plain (regs : Regs) : ∀ (ms : Mems), ms.plain = true → resolveMems regs ms = some ms
  | .nil, _ => by simp [resolveMems]
  | .cons k v r, h => by
    simp only [Mems.plain, Bool.and_eq_true] at h
    simp [resolveMems, resolve_of_plain regs v h.1, resolveMems_of_plain regs r h.2]
end

mutual
theorem resolve_plain (regs : Regs) : ∀ (v w : Val), resolve regs v = some w → w.plain = true
  | .null, w, h => by simp [resolve] at h; subst h; rfl
  | .bool _, w, h => by simp [resolve] at h; subst h; rfl
  | .int _, w, h => by simp [resolve] at h; subst h; rfl
  | .str _, w, h => by simp [resolve] at h; subst h; rfl
  | .arr xs, w, h => by
    simp only [resolve, Option.map_eq_some_iff] at h
    obtain ⟨ys, hy, rfl⟩ := h
    simpa [Val.plain] using resolveElems_plain regs xs ys hy
  | .obj ms, w, h => by
    simp only [resolve, Option.map_eq_some_iff] at h
    obtain ⟨ys, hy, rfl⟩ := h
    simpa [Val.plain] using resolveMems_plain regs ms ys hy
  | .custom sro hj p, w, h => by
    simp only [resolve] at h
    split at h
    · simp only [Option.map_eq_some_iff] at h
      obtain ⟨q, hq, rfl⟩ := h
      simp [tagged, Val.plain, Vals.plain, resolve_plain regs p q hq]
    · split at h
      · cases h
      · simp only [Option.map_eq_some_iff] at h
        obtain ⟨q, hq, rfl⟩ := h
        simp [tagged, Val.plain, Vals.plain, resolve_plain regs p q hq]
theorem resolveElems_plain (regs : Regs) : ∀ (xs ys : Vals), resolveElems regs xs = some ys → ys.plain = true
  | .nil, ys, h => by simp [resolveElems] at h; subst h; rfl
  | .cons v r, ys, h => by
    simp only [resolveElems] at h
    split at h
    · rename_i v' r' hv hr
      cases h
      simp [Vals.plain, resolve_plain regs v v' hv, resolveElems_plain regs r r' hr]
    · cases h
theorem resolveMems_plain (regs : Regs) : ∀ (ms ys : Mems), resolveMems regs ms = some ys → ys.plain = true
  | .nil, ys, h => by simp [resolveMems] at h; subst h; rfl
  | .cons k v r, ys, h => by
    simp only [resolveMems] at h
    split at h
    · rename_i v' r' hv hr
      cases h
      simp [Mems.plain, resolve_plain regs v v' hv, resolveMems_plain regs r r' hr]
    · cases h
end

end Pyr.Render
