import PyramidModel.Traversal
/-
Reusable percent-coding / UTF-8 vocabulary (C17, and meant for C06 / C07), core Lean only.

It *reuses* the byte-level functions of `PyramidModel.Traversal` (namespace `Pyr.Trav`):
  `utf8Enc`, `utf8Dec` (core's verified strict UTF-8 codec), `quoteBytes safe` (= `urllib.parse.quote_from_bytes`),
  `unquoteToBytes` (= `urllib.parse.unquote_to_bytes`), `isUnreserved` (= urllib's `_ALWAYS_SAFE`), `hexDigit`,
  `hexVal`, `asciiEncode`, `splitOn`, `joinWith`
and adds the text-level functions of `pyramid.encode` / `urllib.parse` and the RFC 3986 character classes.
The lemmas are in `Lemmas/PctCode.lean`.
-/
namespace Pyr.Pct
open Pyr Pyr.Trav

/-- `pyramid.encode.url_quote(val: str, safe)` = `urllib.parse.quote(val.encode('utf-8'), safe)` -/
def quote (safe : List UInt8) (t : Text) : Text := quoteBytes safe (utf8Enc t)

def sp2plus (c : Char) : Char := if c = ' ' then '+' else c
def plus2sp (c : Char) : Char := if c = '+' then ' ' else c

/-- `pyramid.encode.quote_plus(val: str, safe)` = `urllib.parse.quote_plus(bytes, safe)`:
`quote(string, safe + ' ').replace(' ', '+')` (when the string has no space the replace is the identity). -/
def quotePlus (safe : List UInt8) (t : Text) : Text := (quoteBytes (safe ++ [32]) (utf8Enc t)).map sp2plus

/-- the bytes of an ASCII text (what `str.encode` gives on URL text) -/
def toBytes (t : Text) : Bytes := t.map fun c => UInt8.ofNat c.toNat

/-- `urllib.parse.unquote(s, errors='strict')` on ASCII text; `none` = not ASCII (outside the fragment) or the
decoded bytes are not UTF-8. -/
def unquote (s : Text) : Option Text := (asciiEncode s).bind fun b => utf8Dec (unquoteToBytes b)

/-- what `parse_qsl` does to a name or value: `s.replace('+', ' ')` then `unquote` -/
def unquotePlus (s : Text) : Option Text := unquote (s.map plus2sp)

/-! ### character classes (RFC 3986 §2) -/

def isAlnum (c : Char) : Bool :=
  (48 ≤ c.toNat && c.toNat ≤ 57) || (65 ≤ c.toNat && c.toNat ≤ 90) || (97 ≤ c.toNat && c.toNat ≤ 122)

/-- unreserved = ALPHA / DIGIT / "-" / "." / "_" / "~" -/
def isUnreservedC (c : Char) : Bool := isAlnum c || c = '-' || c = '.' || c = '_' || c = '~'

/-- sub-delims = "!" / "$" / "&" / "'" / "(" / ")" / "*" / "+" / "," / ";" / "=" -/
def isSubDelim (c : Char) : Bool :=
  c = '!' || c = '$' || c = '&' || c = '\'' || c = '(' || c = ')' || c = '*' || c = '+' || c = ',' || c = ';' || c = '='

/-- gen-delims = ":" / "/" / "?" / "#" / "[" / "]" / "@" -/
def isGenDelim (c : Char) : Bool := c = ':' || c = '/' || c = '?' || c = '#' || c = '[' || c = ']' || c = '@'

/-- pchar without the pct-encoded alternative: unreserved / sub-delims / ":" / "@" -/
def isPcharC (c : Char) : Bool := isUnreservedC c || isSubDelim c || c = ':' || c = '@'

/-- characters of a path: pchar / "/" -/
def isPathC (c : Char) : Bool := isPcharC c || c = '/'

/-- characters of a query or a fragment: pchar / "/" / "?" -/
def isQueryC (c : Char) : Bool := isPcharC c || c = '/' || c = '?'

/-- any character RFC 3986 allows anywhere in a URI: unreserved / reserved / "%" -/
def isUrlC (c : Char) : Bool := isUnreservedC c || isSubDelim c || isGenDelim c || c = '%'

def isHexC (c : Char) : Bool :=
  (48 ≤ c.toNat && c.toNat ≤ 57) || (65 ≤ c.toNat && c.toNat ≤ 70) || (97 ≤ c.toNat && c.toNat ≤ 102)

/-- scanner state of the grammar below: in plain text / after `%` / after `%` and one hex digit -/
inductive PState where
  | txt | h1 | h2
deriving DecidableEq, Repr

/-- the grammar `( ok-char-other-than-% | "%" HEXDIG HEXDIG )*`, as a three-state scanner -/
def pctScan (ok : Char → Bool) : PState → Text → Bool
  | .txt, [] => true
  | _, [] => false
  | .txt, c :: r => if c = '%' then pctScan ok .h1 r else ok c && pctScan ok .txt r
  | .h1, c :: r => isHexC c && pctScan ok .h2 r
  | .h2, c :: r => isHexC c && pctScan ok .txt r

def pctWF (ok : Char → Bool) (t : Text) : Bool := pctScan ok .txt t

/-- a `safe` argument is *sound for a class* when every byte in it is an ASCII character of that class other than `%` -/
def safeWithin (ok : Char → Bool) (safe : List UInt8) : Bool :=
  safe.all fun b => b.toNat < 128 && b != 37 && ok (Char.ofNat b.toNat)

end Pyr.Pct
