import PyramidModel.Rx
import PyramidModel.Traversal
/-!
C01 (and, later, C06) — executable model of `pyramid.urldispatch` (src/pyramid/urldispatch.py), core Lean only.

Functions modelled (line numbers of src/pyramid/urldispatch.py)
* `hasOld` / `oldRewrite`      `old_route_re.search` / `old_route_re.sub(update_pattern, ·)`          (96, 106-108, 127-128)
* `starAtEnd`                  `star_at_end.search` + `route.rsplit('*', 1)`                           (97, 133-135)
* `nextPh` / `splitRoute`      `route_re.split(route)` (one level of inner braces)                     (103, 137)
* `parseRoute`                 the `while pat:` loop up to the point where regex text is produced     (139-179)
* `compileRoute`               `_compile_route` as a whole: tokens instead of regex text; `regexText` prints the
                               very text the code hands to `re.compile`, `genTemplate` the `%`-template of the
                               generator half (for C06)                                               (111-183, 197)
* `matchAll` / `matchToks`     `re.compile(pattern).match` on the `Rx` fragment + the `matcher` closure (183-195)
* `Mapper`, `connect`          `RoutesMapper.__init__` / `connect`                                     (28-67)
* `mapperCall`, `predTrace`    `RoutesMapper.__call__`                                                 (72-92)

What is data, not model: the meaning of `\w \d \s` for non-ASCII characters (`Rx.Ucd`), the regex trees of
`{name:regex}` placeholders (`lib`: text ↦ tree, resolved by printing; text that no tree prints is *outside the
model*, `CErr.unsupported`), the outcome of opaque route predicates (`Pred.const`).
-/
namespace Pyr.Route

open Pyr.Rx (Rx Ucd isWord asciiAlpha asciiAlnum)
open Pyr.Trav (Bytes splitPathInfo utf8Dec utf8Enc quoteBytes)

/-! ### what the translator reads off `_compile_route` -/

inductive Anchor where
  | endOfString        -- `\Z`
  | dollar             -- `$` : also matches before a final LF
  | unknown
deriving Repr, DecidableEq

inductive PhDefault where
  | notSlashPlus       -- `[^/]+`
  | unknown
deriving Repr, DecidableEq

inductive RestTpl where
  | lazyAllStar        -- `(?P<%s>(?s:.*?))` : any text, newline included (since fc43a19; before: `(?P<%s>.*?)`)
  | unknown
deriving Repr, DecidableEq

inductive LitMode where
  | escaped            -- `re.escape(prefix)` and `re.escape(s)`
  | unknown
deriving Repr, DecidableEq

inductive OldRe where
  | colonIdent         -- `(\:[_a-zA-Z]\w*)`
  | unknown
deriving Repr, DecidableEq

inductive StarRe where
  | starWordEnd        -- `\*(\w*)$`
  | unknown
deriving Repr, DecidableEq

inductive RouteRe where
  | braceOneLevel      -- `(\{[_a-zA-Z][^{}]*(?:\{[^{}]*\}[^{}]*)*\})`
  | unknown
deriving Repr, DecidableEq

structure Cfg where
  anchor : Anchor
  phDefault : PhDefault
  restTpl : RestTpl
  literals : LitMode
  oldRe : OldRe
  starRe : StarRe
  routeRe : RouteRe
  /-- `name.split(':', 1)`: name is the text before the FIRST colon -/
  splitFirstColon : Bool
  /-- `RoutesMapper.__call__` iterates `self.routelist` (not reversed, not the static list), tests the pattern
  first, `continue`s when a predicate fails and returns at the first route that passes -/
  loopInOrder : Bool
  /-- `connect` appends to `routelist` only `if not static` (static routes go to `static_routes`) -/
  staticKeptOut : Bool
  /-- the `matcher` closure passes the remainder group (and only it) through `split_path_info` -/
  restNormalised : Bool
deriving Repr, DecidableEq

/-- what this model assumes of the source (`Props/C01.lean` proves the generated value equal to it) -/
def Cfg.std : Cfg :=
  { anchor := .endOfString, phDefault := .notSlashPlus, restTpl := .lazyAllStar, literals := .escaped,
    oldRe := .colonIdent, starRe := .starWordEnd, routeRe := .braceOneLevel, splitFirstColon := true,
    loopInOrder := true, staticKeptOut := true, restNormalised := true }

/-! ### tokens -/

inductive Tok where
  | lit (s : Text)                   -- `re.escape(s)`
  | ph (name : Text) (rx : Rx)       -- `(?P<name>rx)`
  | rest (name : Text)               -- `(?P<name>(?s:.*?))`, value passed through `split_path_info`
deriving Repr, DecidableEq

/-- a value of the match dictionary -/
inductive Val where
  | str (s : Text)
  | segs (xs : List Text)
deriving Repr, DecidableEq

abbrev Env := List (Text × Val)

/-! ### parsing the pattern text -/

def idStartA (c : Char) : Bool := asciiAlpha c || c = '_'

/-- `old_route_re.search(route)`: some `:` directly followed by `[_a-zA-Z]` -/
def hasOld : Text → Bool
  | [] => false
  | [_] => false
  | c :: d :: cs => (c = ':' && idStartA d) || hasOld (d :: cs)

/-- `old_route_re.sub(update_pattern, route)`: every `:name` (`name` = `[_a-zA-Z]\w*`, longest) becomes `{name}`.
The flag says whether we are inside a name. -/
def oldRewrite (u : Ucd) : Bool → Text → Text
  | true, [] => ['}']
  | false, [] => []
  | inName, c :: cs =>
    if inName && isWord u c then c :: oldRewrite u true cs
    else
      let close : Text := if inName then ['}'] else []
      if c = ':' && (match cs with | d :: _ => idStartA d | [] => false) then close ++ '{' :: oldRewrite u true cs
      else close ++ c :: oldRewrite u false cs

/-- `route.rsplit('*', 1)` when there is a `*` -/
def splitLastStar (s : Text) : Option (Text × Text) :=
  let r := s.reverse
  match r.dropWhile (· ≠ '*') with
  | [] => none
  | _ :: before => some (before.reverse, (r.takeWhile (· ≠ '*')).reverse)

/-- `star_at_end.search(route)` (`\*(\w*)$`; `$` also matches before a final LF) and, when it matches, the
`rsplit`: `(route, remainder)`.  The `*` of the match is necessarily the last one. -/
def starAtEnd (u : Ucd) (s : Text) : Option (Text × Text) :=
  match splitLastStar s with
  | none => none
  | some (before, tail) =>
    let t := if tail.getLast? = some '\n' then tail.dropLast else tail
    if t.all (isWord u) then some (before, tail) else none

/-- after `{` and a name-start character: the rest of a `route_re` match.  `inner` = inside a nested `{…}`.
Returns (text up to, not including, the closing brace; text after it). -/
def scanBody : Bool → Text → Option (Text × Text)
  | _, [] => none
  | inner, c :: cs =>
    if c = '}' then
      if inner then (scanBody false cs).map fun x => (c :: x.1, x.2) else some ([], cs)
    else if c = '{' then
      if inner then none else (scanBody true cs).map fun x => (c :: x.1, x.2)
    else (scanBody inner cs).map fun x => (c :: x.1, x.2)

/-- `route_re` tried at the head of the text: (inside of the braces, rest) -/
def phAtHead : Text → Option (Text × Text)
  | '{' :: d :: ds => if idStartA d then (scanBody false ds).map fun x => (d :: x.1, x.2) else none
  | _ => none

/-- leftmost `route_re` match: (literal before it, inside of the braces, rest) -/
def nextPh : Text → Option (Text × Text × Text)
  | [] => none
  | c :: cs =>
    match phAtHead (c :: cs) with
    | some (ct, r) => some ([], ct, r)
    | none => (nextPh cs).map fun x => (c :: x.1, x.2.1, x.2.2)

/-- the pieces after the first placeholder: (inside of the braces, literal that follows) -/
def splitRest : Nat → Text → Text → List (Text × Text)
  | 0, ct, r => [(ct, r)]
  | f + 1, ct, r =>
    match nextPh r with
    | none => [(ct, r)]
    | some (l, ct', r') => (ct, l) :: splitRest f ct' r'

/-- `route_re.split(route)`: the prefix and the (placeholder, literal) pairs -/
def splitRoute (s : Text) : Text × List (Text × Text) :=
  match nextPh s with
  | none => (s, [])
  | some (l, ct, r) => (l, splitRest s.length ct r)

/-- a placeholder before its regex text is resolved: `reg = none` is the default `[^/]+` -/
structure RawPh where
  name : Text
  reg : Option Text
deriving Repr, DecidableEq

/-- `name[1:-1]`, then `name.split(':', 1)` when there is a colon -/
def rawPh (ct : Text) : RawPh :=
  if ct.contains ':' then ⟨ct.takeWhile (· ≠ ':'), some ((ct.dropWhile (· ≠ ':')).drop 1)⟩ else ⟨ct, none⟩

structure Parsed where
  pfx : Text
  pieces : List (RawPh × Text)
  remainder : Option Text        -- `None`, or the text after the last `*` (may be empty)
deriving Repr, DecidableEq

/-- lines 127-137 and the name/regex split of the loop -/
def parseRoute (u : Ucd) (route : Text) : Parsed :=
  let r1 := if hasOld route && (nextPh route).isNone then oldRewrite u false route else route
  let r2 := if r1.head? = some '/' then r1 else '/' :: r1
  let (r3, remainder) :=
    match starAtEnd u r2 with
    | some (b, t) => (b, some t)
    | none => (r2, none)
  let (p, pcs) := splitRoute r3
  { pfx := p, pieces := pcs.map fun x => (rawPh x.1, x.2), remainder := remainder }

inductive CErr where
  | reError          -- `re.compile` refuses the pattern: bad or repeated group name
  | unsupported      -- outside the model: non-ASCII group name, or a regex text no supplied tree prints
deriving Repr, DecidableEq

def isIdentA : Text → Bool
  | [] => false
  | c :: cs => idStartA c && cs.all fun c => asciiAlnum c || c = '_'

def isAscii (t : Text) : Bool := t.all fun c => c.toNat < 128

/-- the regex library: printed text ↦ tree -/
abbrev Lib := List (Text × Rx)

def mkLib (rxs : List Rx) : Lib := rxs.map fun r => (Rx.print r, r)

def resolve (lib : Lib) : Option Text → Option Rx
  | none => some Rx.notSlashPlus
  | some t => if t = Rx.print Rx.notSlashPlus then some Rx.notSlashPlus else lib.lookup t

def tokName : Tok → Option Text
  | .lit _ => none
  | .ph n _ => some n
  | .rest n => some n

def tokNames (ts : List Tok) : List Text := ts.filterMap tokName

def piecesToks (lib : Lib) : List (RawPh × Text) → Option (List Tok)
  | [] => some []
  | (p, l) :: rest =>
    match resolve lib p.reg, piecesToks lib rest with
    | some rx, some ts => some (.ph p.name rx :: (if l = [] then ts else .lit l :: ts))
    | _, _ => none

def dupFree : List Text → Bool
  | [] => true
  | x :: xs => !xs.contains x && dupFree xs

/-- what `re.compile` says about the group names: they must be identifiers and pairwise distinct (non-ASCII names
are outside the model) -/
def checkNames (toks : List Tok) : Except CErr (List Tok) :=
  if !(tokNames toks).all isAscii then .error .unsupported
  else if !((tokNames toks).all isIdentA && dupFree (tokNames toks)) then .error .reError
  else .ok toks

/-- the remainder token: `if remainder:` — an empty name adds no group -/
def restToks : Option Text → List Tok
  | some n => if n = [] then [] else [.rest n]
  | none => []

/-- `_compile_route(route)` up to `re.compile`: the token list, or why there is none -/
def compileRoute (u : Ucd) (lib : Lib) (route : Text) : Except CErr (List Tok) :=
  match piecesToks lib (parseRoute u route).pieces with
  | none => .error .unsupported
  | some ts => checkNames (.lit (parseRoute u route).pfx :: ts ++ restToks (parseRoute u route).remainder)

/-- the text handed to `re.compile` (line 181) -/
def regexText (toks : List Tok) : Text :=
  toks.flatMap (fun
    | .lit s => Rx.reEscape s
    | .ph n rx => "(?P<".toList ++ n ++ '>' :: Rx.print rx ++ [')']
    | .rest n => "(?P<".toList ++ n ++ ">(?s:.*?))".toList) ++ ['\\', 'Z']

/-- `quote_path_segment(s, safe='/').replace('%', '%%')` -/
def genLit (s : Text) : Text := (quoteBytes [47] (utf8Enc s)).flatMap fun c => if c = '%' then ['%', '%'] else [c]

/-- the `%`-format template `gen` (line 197) -/
def genTemplate (toks : List Tok) : Text :=
  toks.flatMap fun
    | .lit s => genLit s
    | .ph n _ => "%(".toList ++ n ++ ")s".toList
    | .rest n => "%(".toList ++ n ++ ")s".toList

/-! ### matching -/

def dropPrefix? : Text → Text → Option Text
  | [], s => some s
  | _ :: _, [] => none
  | a :: as, b :: bs => if a = b then dropPrefix? as bs else none

/-- the end-of-pattern test -/
def atEnd (a : Anchor) (s : Text) : Bool :=
  match a with
  | .endOfString => s = []
  | .dollar => s = [] || s = ['\n']
  | .unknown => false

/-- every way the compiled pattern matches the whole path, in `re`'s backtracking order, as match dictionaries
(in group order) -/
def matchAll (u : Ucd) (a : Anchor) : List Tok → Text → List Env
  | [], s => if atEnd a s then [[]] else []
  | .lit l :: ts, s =>
    match dropPrefix? l s with
    | some rest => matchAll u a ts rest
    | none => []
  | .ph n rx :: ts, s =>
    (Rx.run u rx s).flatMap fun x => (matchAll u a ts x.2).map fun e => (n, Val.str x.1) :: e
  | .rest n :: ts, s =>
    (Rx.run u Rx.lazyAllStar s).flatMap fun x => (matchAll u a ts x.2).map fun e => (n, Val.segs (splitPathInfo x.1)) :: e

/-- `route.match(path)`: what `re` reports is the first success -/
def matchToks (u : Ucd) (toks : List Tok) (path : Text) : Option Env := (matchAll u .endOfString toks path).head?

/-! ### the mapper -/

/-- a route predicate as far as dispatch can tell: an opaque truth value for this request, or a test of the match
dictionary (`info['match'].get(name) == val`) -/
inductive Pred where
  | const (b : Bool)
  | eq (name : Text) (val : Text)
deriving Repr, DecidableEq

def Pred.eval (e : Env) : Pred → Bool
  | .const b => b
  | .eq n v => e.lookup n == some (.str v)

structure Route where
  id : Nat                       -- identity of the Route object (the number of the `connect` call)
  name : Text
  toks : List Tok
  preds : List Pred
  static : Bool
deriving Repr, DecidableEq

inductive Outcome where
  | urlDecode                              -- URLDecodeError
  | noMatch                                -- {'route': None, 'match': None}
  | hit (idx : Nat) (env : Env)            -- index into `routelist`
deriving Repr, DecidableEq

/-- `route.predicates` hold: `not preds or all(p(info, request) for p in preds)` -/
def predsHold (e : Env) (preds : List Pred) : Bool := preds.all (·.eval e)

/-- the `for route in self.routelist` loop; `i` is the index of the head -/
def firstRoute (u : Ucd) (p : Text) : List Route → Nat → Option (Nat × Env)
  | [], _ => none
  | r :: rs, i =>
    match matchToks u r.toks p with
    | some e => if predsHold e r.preds then some (i, e) else firstRoute u p rs (i + 1)
    | none => firstRoute u p rs (i + 1)

/-- `request.path_info or '/'` with its two `except` clauses; `none` = `PATH_INFO` missing -/
def requestPath (raw : Option Bytes) : Option Text :=
  match raw with
  | none => some ['/']
  | some b =>
    match utf8Dec b with
    | none => none
    | some t => some (if t = [] then ['/'] else t)

/-- `RoutesMapper.__call__` -/
def mapperCall (u : Ucd) (rs : List Route) (raw : Option Bytes) : Outcome :=
  match requestPath raw with
  | none => .urlDecode
  | some p =>
    match firstRoute u p rs 0 with
    | some (i, e) => .hit i e
    | none => .noMatch

/-- predicates called, in order, as (route id, position in `route.predicates`): `all` stops at the first false -/
def callsOf (e : Env) (rid : Nat) : List Pred → Nat → List (Nat × Nat)
  | [], _ => []
  | p :: ps, k => (rid, k) :: (if p.eval e then callsOf e rid ps (k + 1) else [])

def predTrace (u : Ucd) (p : Text) : List Route → List (Nat × Nat)
  | [] => []
  | r :: rs =>
    match matchToks u r.toks p with
    | some e => callsOf e r.id r.preds 0 ++ (if predsHold e r.preds then [] else predTrace u p rs)
    | none => predTrace u p rs

/-- `RoutesMapper` state -/
structure Mapper where
  routelist : List Route
  statics : List Route
  routes : List (Text × Nat)       -- `self.routes`: name ↦ id of the Route object
  next : Nat                       -- ids handed out so far
deriving Repr, DecidableEq

def Mapper.empty : Mapper := ⟨[], [], [], 0⟩

def setKey (k : Text) (v : Nat) : List (Text × Nat) → List (Text × Nat)
  | [] => [(k, v)]
  | (k', v') :: rest => if k' = k then (k, v) :: rest else (k', v') :: setKey k v rest

/-- `if name in self.routes: oldroute = self.routes[name]; if oldroute in self.routelist: self.routelist.remove(oldroute)` -/
def keptRoutes (m : Mapper) (name : Text) : List Route :=
  match m.routes.lookup name with
  | some old => m.routelist.filter (·.id != old)
  | none => m.routelist

/-- `connect(name, pattern, predicates=…, static=…)`; `compiled` is `_compile_route(pattern)`.  The old route of
that name leaves `routelist` *before* the new pattern is compiled, so it is gone even when compilation raises
(the second component says whether it raised). -/
def connect (m : Mapper) (name : Text) (compiled : Except CErr (List Tok)) (preds : List Pred) (static : Bool) :
    Mapper × Bool :=
  let rl := keptRoutes m name
  match compiled with
  | .error _ => ({ m with routelist := rl, next := m.next + 1 }, true)
  | .ok toks =>
    let r : Route := { id := m.next, name := name, toks := toks, preds := preds, static := static }
    ({ routelist := if static then rl else rl ++ [r],
       statics := if static then m.statics ++ [r] else m.statics,
       routes := setKey name m.next m.routes,
       next := m.next + 1 }, false)

structure Decl where
  name : Text
  compiled : Except CErr (List Tok)
  preds : List Pred
  static : Bool

def runDecls (m : Mapper) : List Decl → Mapper
  | [] => m
  | d :: ds => runDecls (connect m d.name d.compiled d.preds d.static).1 ds

/-! ### `Configurator.add_route` (config/routes.py 22-514) and `route_prefix` stacking (config/__init__.py `include`,
config/routes.py `route_prefix_context` 592-640)

Only what decides dispatch is modelled: the pattern that reaches `mapper.connect`, the `static` flag and the
predicates.  `factory`, `use_global_views`, `pregenerator`, introspection do not reach `RoutesMapper.__call__`
(the correspondence run varies them).  A pattern that `urlparse` reads as having a host becomes an external static
route: outside the model (`AddErr.external` is reported by the caller, the model does not parse URLs). -/

/-- `str.lstrip('/')` -/
def lstripSlash (t : Text) : Text := t.dropWhile (· = '/')
/-- `str.rstrip('/')` -/
def rstripSlash (t : Text) : Text := (t.reverse.dropWhile (· = '/')).reverse

/-- `route_prefix_context(new)`: the value of `config.route_prefix` inside the context, given the one outside:
`'{}/{}'.format(old.rstrip('/'), new.lstrip('/')).strip('/') or None` (a `None` counts as `''`) -/
def stackPrefix (old new : Option Text) : Option Text :=
  let s := Pyr.Trav.stripSlash (rstripSlash (old.getD []) ++ '/' :: lstripSlash (new.getD []))
  if s = [] then none else some s

/-- the prefix in force inside nested `include(…, route_prefix=pᵢ)` calls, outermost first; `top` is the
`Configurator(route_prefix=…)` argument (kept as given) -/
def prefixAt (top : Option Text) (incs : List (Option Text)) : Option Text := incs.foldl stackPrefix top

/-- `add_route`, lines 395-403: the pattern handed to `mapper.connect` -/
def routePattern (pfx : Option Text) (pattern : Text) (inheritSlash : Bool) : Text :=
  match pfx with
  | none => pattern
  | some p =>
    if p = [] then pattern                       -- `elif self.route_prefix:` is false for ''
    else if pattern = [] && inheritSlash then p
    else rstripSlash p ++ '/' :: lstripSlash pattern

inductive AddErr where
  | patternNone            -- neither `pattern` nor `path`
  | inheritSlash           -- `inherit_slash` with a non-empty pattern
deriving Repr, DecidableEq

/-- the keyword arguments of `add_route` that are route predicates of their own (routes.py 475-486 and the
`**predicates` registered by `add_default_route_predicates`) -/
inductive BuiltinKind where
  | xhr | requestMethod | pathInfo | requestParam | header | accept | isAuthenticated | effectivePrincipals | traverse
deriving Repr, DecidableEq

structure RouteArgs where
  name : Text
  pattern : Option Text
  path : Option Text             -- the old alias, used when `pattern` is None
  inheritSlash : Bool
  static : Bool
  preds : List Pred              -- custom / registered predicates
  /-- the built-in predicate keywords as passed: `none` = left at (or passed as) `None`; `some p` = a value was given —
  *any* value, also a falsy one such as `xhr=False`, `request_method=()`, `header=''` — and `p` is what the predicate
  made from it answers -/
  builtins : List (BuiltinKind × Option Pred) := []
deriving Repr, DecidableEq

/-- the predicates the predicate list makes of the built-in keywords: one for every keyword whose value is not `None` -/
def builtinPreds (bs : List (BuiltinKind × Option Pred)) : List Pred := bs.filterMap (·.2)

/-- what `add_route` (called where `pfx` is in force) asks `mapper.connect` to do: (pattern, predicates, static) -/
def addRoute (pfx : Option Text) (a : RouteArgs) : Except AddErr (Text × List Pred × Bool) :=
  match (match a.pattern with | some p => some p | none => a.path) with
  | none => .error .patternNone
  | some pat =>
    if a.inheritSlash && pat != [] then .error .inheritSlash
    else .ok (routePattern pfx pat a.inheritSlash, builtinPreds a.builtins ++ a.preds, a.static)

/-- `XHRPredicate(val)`: `bool(request.is_xhr) is bool(val)` -/
def xhrHolds (val : Bool) (isXhr : Bool) : Bool := isXhr == val

/-- `RequestMethodPredicate(val)(…, request)`: `GET` implies `HEAD` -/
def requestMethodHolds (val : List Text) (method : Text) : Bool :=
  (if val.contains "GET".toList && !val.contains "HEAD".toList then "HEAD".toList :: val else val).contains method

end Pyr.Route
