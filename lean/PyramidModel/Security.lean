import PyramidModel.Gen.C05
import PyramidModel.TopoSort
/-!
C05 — executable model of the permission mediation around view bodies.

Mirrors (file:lines of /repo/src/pyramid):
* `viewderivers.py:283-333`  `secured_view` / `_secured_view`   → `effPerm`, `deriveOne`, layer `secured` of `runLayers`
* `config/views.py:206-226`  `viewdefaults` (`__view_defaults__`)  → `classDefault`, `stmtPerm`
* `viewderivers.py:214-241`  `owrapped_view`                    → layer `owrapped` (inner view first, then the wrapper
                                                                   view through `render_view_to_response`, `secure=True`)
* `config/views.py:183-203`  `predicated_view`                  → layer `predicated`
* `config/views.py:1165-1176` `_apply_view_derivers`            → `chain` (the wrapping order OBSERVED on the tree under test;
                                                                   cross-checked against the proven C18 sorter in Props)
* `config/views.py:944-1007` `add_view.register`                → `registerView` (normal and exception variants)
* `config/views.py:1665-1892, 2234-2260` forbidden/notfound/exception/static directives → `lower` (GENERATED table)
* `config/views.py:78-154`   `MultiView.__call__/__permitted__/__call_permissive__/match` → `callMulti`, `callSlot`, `vep`
* `view.py:636-682`          `_call_view` (`secure`)             → `callSlots`, `callView`
* `view.py:28-76`            `render_view_to_response`           → `render`
* `view.py:689-791`, `tweens.py:7-46` `invoke_exception_view`, `_error_handler`, `excview_tween` → `excPhase`, `handle`
* `router.py:140-170`        `handle_request` (view call + HTTPNotFound) → `mainPhase`
* `security.py:124-154`      `view_execution_permitted`          → `vep`
* `config/security.py:54,115,236`, `config/views.py` action orders → `Stmt.phase` (GENERATED), `execOrder`, `configure`

A request run yields an event trace over `permits ctx perm ↦ answer`, `body tag`, and the marker
`mainRaised kind` (what the main handler raised into the excview tween).
Which registrations are *found* for a request (resolution orders, predicate `order`) is C03's subject; here the
resolution orders and each view's `order` are inputs.
-/
namespace Pyr.Security


/-! ### exception kinds (ids shared with the harness) -/
def kForbidden : Nat := 13
def kNotFound : Nat := 14
def kPredMismatch : Nat := 16
def kValueError : Nat := 17
def kTypeError : Nat := 18
def kRecursion : Nat := 98

/-- `HTTPNotFound` and its subclass `PredicateMismatch`: what `_error_handler`'s `except HTTPNotFound` catches -/
def isNotFoundFamily (k : Nat) : Bool := k == kNotFound || k == kPredMismatch

/-- the id under which an exception object of kind `k` is shown to the policy as `context` -/
def excCtx (k : Nat) : Nat := 100 + k

/-! ### configuration statements -/

/-- the `permission=` argument of a view statement / the value of the default permission -/
inductive PermArg
  | absent
  | name (p : Nat)
  | npr
deriving DecidableEq, Repr

structure ViewStmt where
  tag : Nat
  name : Nat
  route : Nat            -- 0 = not route-bound (IRequest)
  ctxClass : Nat         -- 0 = no context (Interface)
  isExcCtx : Bool        -- `isexception(context)`
  excOnly : Bool         -- `exception_only=`
  perm : PermArg
  order : Nat            -- predicate order (C03), input
  preds : List Nat
  wrapper : Option Nat   -- `wrapper=` view name
  act : Nat              -- what the body does: 0 = returns a response, k > 0 = raises exception kind k
  deco : Bool := false   -- `decorator=` given (user code that runs when the view is called, before the inner view)
  vdOwn : Option PermArg := none   -- the view is a class carrying its OWN `__view_defaults__` (with this `permission`)
  vdBase : Option PermArg := none  -- a base class of the view carries `__view_defaults__` (with this `permission`)
deriving DecidableEq, Repr

inductive Stmt
  | setPolicy (legacy : Bool)          -- set_security_policy / the legacy authn+authz pair (shim policy)
  | setDefault (p : PermArg)           -- set_default_permission
  | addView (dir : Nat) (v : ViewStmt) -- dir: 0 add_view, 1 add_forbidden_view, 2 add_notfound_view, 3 add_exception_view, 4 add_static_view
  | other (phase : Int)                -- any other directive (no effect on the modelled state)
deriving DecidableEq, Repr

/-! ### phases, regenerated from the source -/

/-- the `order` of the ONE action of directive `d` whose execution was observed (by the probe, on the tree under
test) to produce the directive's effect; anything else (no such action, two of them, probe failed) ⇒ `dflt` -/
def lookupOrder (d : String) (dflt : Int) : Int :=
  match Pyr.Gen.C05.directiveOrders.lookup d with
  | some (_, [o]) => o
  | _ => dflt

/-- unknown resolves to "policy later than views" so that the phase obligation fails -/
def phasePolicy : Int := lookupOrder "set_security_policy" 99999
def phaseLegacy : Int := lookupOrder "set_authentication_policy" 99999
def phaseDefault : Int := lookupOrder "set_default_permission" 99999
def phaseView : Int := lookupOrder "add_view" (-99999)

def Stmt.phase : Stmt → Int
  | .setPolicy legacy => if legacy then phaseLegacy else phasePolicy
  | .setDefault _ => phaseDefault
  | .addView _ _ => phaseView
  | .other ph => ph

/-- stable insertion: `x` goes before the first element whose phase is not smaller -/
def insertStmt (x : Stmt) : List Stmt → List Stmt
  | [] => [x]
  | y :: ys => if x.phase ≤ y.phase then x :: y :: ys else y :: insertStmt x ys

/-- the order in which one commit scope executes its statements: by (phase, position written) -/
def execOrder : List Stmt → List Stmt
  | [] => []
  | x :: xs => insertStmt x (execOrder xs)

/-! ### derivation (`_secured_view`'s preamble) and registration -/

/-- a derived, registered view callable -/
structure DView where
  tag : Nat
  name : Nat
  route : Nat
  ctxClass : Nat
  exc : Bool             -- registered under IExceptionViewClassifier
  order : Nat
  preds : List Nat
  guard : Option Nat     -- the permission `_secured_view` baked in (none: not wrapped)
  wrapper : Option Nat
  act : Nat
  deco : Bool := false
deriving DecidableEq, Repr

/-- `config/views.py:206-226` `viewdefaults` (wrapped around `add_view` and the forbidden / notfound / exception
directives): `getattr(view, '__view_defaults__', {})` — ordinary attribute lookup, so the class's own dict REPLACES an
inherited one wholesale, and an undecorated subclass sees its base's -/
def classDefault (own base : Option PermArg) : PermArg :=
  match own with
  | some p => p
  | none => base.getD .absent

/-- `defaults.update(kw)`: an explicit `permission=` argument wins over the class-level default -/
def stmtPerm (v : ViewStmt) : PermArg :=
  match v.perm with
  | .absent => classDefault v.vdOwn v.vdBase
  | x => x

/-- `_secured_view`: explicit permission, else the default unless `exception_only`; the marker means none -/
def effPerm (dflt : PermArg) (perm : PermArg) (excOnly : Bool) : Option Nat :=
  let p := match perm with
    | .absent => if excOnly then PermArg.absent else dflt
    | x => x
  match p with
  | .name n => some n
  | _ => none

/-- registry state that matters here -/
structure Reg where
  policy : Bool := false
  dflt : PermArg := .absent
  views : List DView := []
deriving Repr

def deriveOne (policy : Bool) (dflt : PermArg) (v : ViewStmt) (excVariant : Bool) : DView :=
  { tag := v.tag, name := v.name, route := v.route, ctxClass := v.ctxClass, exc := excVariant, order := v.order,
    preds := v.preds, guard := if policy then effPerm dflt (stmtPerm v) excVariant else none,
    wrapper := v.wrapper, act := v.act, deco := v.deco }

/-- `add_view.register`: `if not exception_only: normal variant`, `if isexc: exception variant` -/
def deriveBoth (policy : Bool) (dflt : PermArg) (v : ViewStmt) : List DView :=
  (if v.excOnly then [] else [deriveOne policy dflt v false]) ++
  (if v.isExcCtx then [deriveOne policy dflt v true] else [])

def forcedPerm (directive : String) : Option PermArg :=
  match Pyr.Gen.C05.specialDirectives.lookup directive with
  | some (p, _, _) => if p = "unguarded" then some .npr else none
  | none => none

def directiveName : Nat → String
  | 1 => "add_forbidden_view"
  | 2 => "add_notfound_view"
  | 3 => "add_exception_view"
  | 4 => "add_static_view"
  | _ => "add_view"

/-- what the special directives pass on to `add_view` (from the GENERATED table; an unrecognised directive
leaves the statement untouched, which makes `special_views_unprotected` fail) -/
def lower (dir : Nat) (v : ViewStmt) : ViewStmt :=
  if dir = 1 ∨ dir = 2 ∨ dir = 3 then
    match forcedPerm (directiveName dir) with
    | some p => { v with perm := p, excOnly := true, isExcCtx := true }
    | none => v
  else if dir = 4 then
    match v.perm, forcedPerm (directiveName dir) with
    | .absent, some p => { v with perm := p }
    | _, _ => v
  else v

def step (r : Reg) : Stmt → Reg
  | .setPolicy _ => { r with policy := true }
  | .setDefault p => { r with dflt := p }
  | .addView dir v => { r with views := r.views ++ deriveBoth r.policy r.dflt (lower dir v) }
  | .other _ => r

def runStmts (r : Reg) (l : List Stmt) : Reg := l.foldl step r

/-- one commit scope on top of the state `r0` -/
def configure (r0 : Reg) (stmts : List Stmt) : Reg := runStmts r0 (execOrder stmts)

/-! ### the deriver chain -/

inductive Layer
  | predicated
  | secured
  | owrapped
  | decorated
  | other
deriving DecidableEq, Repr

def layerOf (s : String) : Layer :=
  if s = "predicated_view" then .predicated
  else if s = "secured_view" then .secured
  else if s = "owrapped_view" then .owrapped
  else if s = "decorated_view" then .decorated
  else .other

/-- outermost first: the order in which the layers of a derived view are ENTERED, observed on the tree under test by
replacing every deriver with a tracing one (`Gen.C05.probedWrapping`; `["unknown"]` when the probe failed) -/
def chainNames : List String := Pyr.Gen.C05.probedWrapping

def chain : List Layer := chainNames.map layerOf

/-! ### the deriver sorter under user additions / replacements (through C18's model of `TopologicalSorter`) -/

/-- a user `add_view_deriver(f, name=…, under=…, over=…)` (none = argument not given) -/
structure DeriverOp where
  name : String
  under : Option (List String)
  over : Option (List String)
deriving Repr, DecidableEq

def insStr (x : String) : List String → List String
  | [] => [x]
  | y :: ys => if x ≤ y then x :: y :: ys else y :: insStr x ys

/-- `as_sorted_tuple` -/
def sortStrs (l : List String) : List String := (l.foldr insStr []).eraseDups

/-- `add_view_deriver`'s normalisation: defaults `under='decorated_view'`, `over='rendered_view'`; everything that is
over VIEW is over `mapped_view` too -/
def normOp (o : DeriverOp) : String × List String × List String :=
  let under := sortStrs (o.under.getD ["decorated_view"])
  let over := sortStrs (o.over.getD ["rendered_view"])
  let over := if over.contains "VIEW" && o.name != "mapped_view" then sortStrs (over ++ ["mapped_view"]) else over
  (o.name, under, over)

/-- the live sorter's result for the default derivers (recorded hints, `Gen.C05.probedHints`) followed by the user's
additions in execution order; `none` = the sorter raises -/
def sortedDerivers (ops : List DeriverOp) : Option (List String) :=
  let all := Pyr.Gen.C05.probedHints ++ ops.map normOp
  let known := (all.map (·.1)).eraseDups
  let id := fun (s : String) => if s = "INGRESS" then 0 else if s = "VIEW" then 1 else 20 + known.idxOf s
  let s0 : Pyr.Topo.Sorter := { defBefore := none, defAfter := some [0], first := 0, last := 1 }
  let addOps : List Pyr.Topo.AddOp := all.map fun h => { name := id h.1, after := some (h.2.1.map id), before := some (h.2.2.map id) }
  match (s0.addAll addOps).sorted with
  | .ok ids => some (ids.map fun i => known.getD (i - 20) "?")
  | _ => none

/-- outermost first, for a configuration with user additions -/
def chainNamesFor (ops : List DeriverOp) : List String :=
  match sortedDerivers ops with
  | some l => ["attr_wrapped_view", "predicated_view"] ++ l
  | none => ["unknown"]

/-- what `__call_permissive__` is bound to: everything under the `secured` layer -/
def afterSecured : List Layer → List Layer
  | [] => []
  | .secured :: rest => rest
  | _ :: rest => afterSecured rest

/-! ### events and outcomes -/

inductive Event
  | permits (ctx perm : Nat) (ans : Bool)
  | body (tag : Nat) (exc : Bool) (ctx : Nat) (guard : Option Nat)
  | mainRaised (kind : Nat)
  | deco (tag : Nat) (ctx : Nat) (guard : Option Nat)   -- the user's decorator code of view `tag` is entered
deriving DecidableEq, Repr

inductive Outcome
  | resp (tag : Nat)
  | none
  | mismatch
  | raised (kind : Nat)
  | perm (b : Bool)
deriving DecidableEq, Repr

abbrev Res := List Event × Outcome

def predsHold (truePreds : List Nat) (d : DView) : Bool := d.preds.all fun p => truePreds.contains p

/-- one derived view called with `(context, request)`: the layers from the outermost in; `[]` is the body.
`wrap n` is `render_view_to_response(context, request, n)` as seen from `owrapped_view`. -/
def runLayers (wrap : Nat → Res) (pol : Nat → Nat → Bool) (truePreds : List Nat) (ctx : Nat) (d : DView) :
    List Layer → Res
  | [] => ([.body d.tag d.exc ctx d.guard], if d.act = 0 then .resp d.tag else .raised d.act)
  | .predicated :: rest =>
    if predsHold truePreds d then runLayers wrap pol truePreds ctx d rest else ([], .mismatch)
  | .secured :: rest =>
    match d.guard with
    | none => runLayers wrap pol truePreds ctx d rest
    | some p =>
      if pol ctx p then
        let r := runLayers wrap pol truePreds ctx d rest
        (.permits ctx p true :: r.1, r.2)
      else ([.permits ctx p false], .raised kForbidden)
  | .owrapped :: rest =>
    match d.wrapper with
    | none => runLayers wrap pol truePreds ctx d rest
    | some w =>
      let r := runLayers wrap pol truePreds ctx d rest
      match r.2 with
      | .resp _ =>
        let r2 := wrap w
        (r.1 ++ r2.1, match r2.2 with | .none => .raised kValueError | o => o)
      | _ => r
  | .decorated :: rest =>
    if d.deco then
      let r := runLayers wrap pol truePreds ctx d rest
      (.deco d.tag ctx d.guard :: r.1, r.2)
    else runLayers wrap pol truePreds ctx d rest
  | .other :: rest => runLayers wrap pol truePreds ctx d rest

/-- `getattr(view, '__call_permissive__', view)(context, request)` -/
def runPermissive (ch : List Layer) (wrap : Nat → Res) (pol : Nat → Nat → Bool) (truePreds : List Nat) (ctx : Nat)
    (d : DView) : Res :=
  match d.guard with
  | some _ => runLayers wrap pol truePreds ctx d (afterSecured ch)
  | none => runLayers wrap pol truePreds ctx d ch

/-- `MultiView.__call__` (a single view behaves like a one-element multiview under `_call_view`) -/
def callMulti (run : DView → Res) : List DView → Res
  | [] => ([], .mismatch)
  | d :: ds =>
    let r := run d
    match r.2 with
    | .mismatch => let r2 := callMulti run ds; (r.1 ++ r2.1, r2.2)
    | _ => r

def callSlot (run runP : DView → Res) (holds : DView → Bool) (secure : Bool) (slot : List DView) : Res :=
  if secure then callMulti run slot
  else match slot with
    | [d] => runP d
    | ds => match ds.find? holds with
      | none => ([], .mismatch)
      | some d => runP d

/-- the loop of `_call_view` -/
def callSlots (call : List DView → Res) : List (List DView) → Bool → Res
  | [], pme => ([], if pme then .mismatch else .none)
  | s :: ss, _ =>
    let r := call s
    match r.2 with
    | .mismatch => let r2 := callSlots call ss true; (r.1 ++ r2.1, r2.2)
    | _ => r

/-! ### lookup (inputs: the resolution orders; `order` per view) -/

def insertByOrder (x : DView) : List DView → List DView
  | [] => [x]
  | y :: ys => if y.order ≤ x.order then y :: insertByOrder x ys else x :: y :: ys

/-- `MultiView.add`: append, then stable sort on `order` -/
def sortByOrder (l : List DView) : List DView := l.foldl (fun acc x => insertByOrder x acc) []

def inSlot (exc : Bool) (route cls name : Nat) (d : DView) : Bool :=
  d.exc == exc && d.route == route && d.ctxClass == cls && d.name == name

def slotViews (views : List DView) (exc : Bool) (route cls name : Nat) : List DView :=
  sortByOrder (views.filter (inSlot exc route cls name))

/-- `_find_views`: request interfaces outer, context resolution order inner; empty slots dropped -/
def findViews (views : List DView) (exc : Bool) (ifaces sro : List Nat) (name : Nat) : List (List DView) :=
  (ifaces.flatMap fun r => sro.map fun c => slotViews views exc r c name).filter fun s => !s.isEmpty

/-! ### the runs -/

structure World where
  pol : Nat → Nat → Bool
  excSro : Nat → List Nat

structure Req where
  ctx : Nat
  sro : List Nat
  ifaces : List Nat
  excIfaces : List Nat
  wrapIfaces : List Nat
  name : Nat
  preds : List Nat
deriving Repr

/-- `_call_view(registry, request, context, providedBy(context), name, secure=…)`; fuel bounds the nesting of
wrapper views (`RecursionError` in Python) -/
def callView (ch : List Layer) (views : List DView) (w : World) (wrapIfaces truePreds : List Nat) :
    Nat → Bool → List Nat → List Nat → Nat → Nat → Bool → Res
  | 0, _, _, _, _, _, _ => ([], .raised kRecursion)
  | fuel + 1, exc, ifaces, sro, name, ctx, secure =>
    let wrap := fun wn => callView ch views w wrapIfaces truePreds fuel false wrapIfaces sro wn ctx true
    callSlots
      (callSlot (fun d => runLayers wrap w.pol truePreds ctx d ch) (runPermissive ch wrap w.pol truePreds ctx)
        (predsHold truePreds) secure)
      (findViews views exc ifaces sro name) false

def fuelFor (views : List DView) : Nat := views.length + 2

/-- `Router.handle_request` from the view lookup on: `None` ⇒ `HTTPNotFound`, `PredicateMismatch` propagates -/
def mainPhase (ch : List Layer) (views : List DView) (w : World) (q : Req) : Res :=
  let r := callView ch views w q.wrapIfaces q.preds (fuelFor views) false q.ifaces q.sro q.name q.ctx true
  match r.2 with
  | .none => (r.1, .raised kNotFound)
  | .mismatch => (r.1, .raised kPredMismatch)
  | _ => r

/-- what `excview_tween` makes of the outcome `o` of the exception-view lookup for an exception of kind `k` -/
def excOutcome (k : Nat) (o : Outcome) : Outcome :=
  match o with
  | .none => .raised k
  | .mismatch => .raised k
  | .raised k' => if isNotFoundFamily k' then .raised k else o
  | _ => o

/-- `excview_tween` → `_error_handler` → `invoke_exception_view` for an exception of kind `k`: no view, or
`HTTPNotFound`/`PredicateMismatch` out of the exception view ⇒ the original exception is re-raised;
anything else (HTTPForbidden of a refused exception view included) propagates -/
def excPhase (ch : List Layer) (views : List DView) (w : World) (q : Req) (k : Nat) : Res :=
  let r := callView ch views w q.wrapIfaces q.preds (fuelFor views) true q.excIfaces (w.excSro k) 0 (excCtx k) true
  match r.2 with
  | .none => (r.1, .raised k)
  | .mismatch => (r.1, .raised k)
  | .raised k' => if isNotFoundFamily k' then (r.1, .raised k) else r
  | _ => r

/-- a request through the router with the excview tween -/
def handle (ch : List Layer) (views : List DView) (w : World) (q : Req) : Res :=
  let r := mainPhase ch views w q
  match r.2 with
  | .raised k =>
    let r2 := excPhase ch views w q k
    (r.1 ++ .mainRaised k :: r2.1, r2.2)
  | _ => r

/-- `render_view_to_response(context, request, name, secure)` called directly -/
def render (ch : List Layer) (views : List DView) (w : World) (q : Req) (secure : Bool) : Res :=
  let r := callView ch views w q.wrapIfaces q.preds (fuelFor views) false q.ifaces q.sro q.name q.ctx secure
  match r.2 with
  | .mismatch => (r.1, .raised kPredMismatch)
  | _ => r

def isSecuredKind (s : List DView) : Bool :=
  match s with
  | [d] => d.guard.isSome
  | _ => true

def permittedOf (w : World) (ctx : Nat) (d : DView) : Res :=
  match d.guard with
  | some p => ([.permits ctx p (w.pol ctx p)], .perm (w.pol ctx p))
  | none => ([], .perm true)

/-- `MultiView.__permitted__`: the first constituent whose predicates hold (`match`), its `__permitted__` or `True` -/
def multiPermitted (w : World) (ctx : Nat) (holds : DView → Bool) (ds : List DView) : Res :=
  match ds.find? holds with
  | none => ([], .raised kPredMismatch)
  | some d => permittedOf w ctx d

/-- `view_execution_permitted`: `adapters.lookup(…, ISecuredView)` (a MultiView provides it), else `IView` -/
def vep (views : List DView) (w : World) (q : Req) : Res :=
  let slots := findViews views false q.ifaces q.sro q.name
  match slots.find? isSecuredKind with
  | some [d] => permittedOf w q.ctx d
  | some ds => multiPermitted w q.ctx (predsHold q.preds) ds
  | none => if slots.isEmpty then ([], .raised kTypeError) else ([], .perm true)

end Pyr.Security
