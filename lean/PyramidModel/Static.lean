import PyramidModel.Traversal
/-
C16 — executable model of `pyramid.static.static_view` (src/pyramid/static.py) with the two ways of mounting it,
core Lean only.

Functions modelled (line numbers of src/pyramid/static.py unless said otherwise)
* `insecureElements`, `invalidElementChars`, `containsInvalidElementChar`, `hasInsecurePathElement`,
  `securePath`                      `_invalid_element_chars`, `_contains_invalid_element_char`,
                                    `_has_insecure_pathelement`, `_secure_path`                       (277-299)
* `pjoin`                           `posixpath.join(a, b)`
* `initialSlashes`, `npStep`, `normpath`   `posixpath.normpath`
* `resourceFilename`                `pkg_resources.DefaultProvider._fn`: `os.path.join(base, *name.split('/'))`
* `resourceName`                    `static_view.get_resource_name` after the tuple is known            (148-172)
* `findResourcePath`                `static_view.find_resource_path`                                  (174-185)
* `sortBySize`, `possibleFiles`     `static_view.get_possible_files` (stable sort by size)            (187-220)
* `findBestMatch`                   `static_view.find_best_match`                                     (222-247)
* `staticView`                      `static_view.__call__` + `FileResponse` opening the file          (118-135)
* `routeRemainder`, `serveSub`      the route `<name>/*subpath` that `add_static_view` registers
                                    (config/views.py 2249-2261; urldispatch.py `_compile_route`, `RoutesMapper.__call__`)
* `traversalReaches`, `servePlain`  `static_view(..., use_subpath=False)` registered as the default view of a
                                    traversal application whose resources accept every name (the view reads
                                    `traversal_path_info(request.environ.get('PATH_INFO', '/'))`: one decoding)
* `serveDirect`                     `static_view(..., use_subpath=True)` called with a given `request.subpath`

The file system is abstract (`Fs`: which path strings are directories, which exist, sizes): symlinks, mounts and
case folding are outside the model (DESIGN §7).  WebOb's `acceptable_offers` is a parameter: the list of
content encodings the client accepts.  `lru_cache` / `filemap` caches are not modelled (the model is a function).
-/
namespace Pyr.Static

open Pyr.Trav (Seg Bytes splitOn joinWith splitPathInfo decodePathInfo)

/-! ### `_secure_path` -/

/-- `{'..', '.', ''}` -/
def insecureElements : List Seg := [['.', '.'], ['.'], []]

/-- `{'/', os.sep, '\x00'}` on POSIX -/
def invalidElementChars : List Char := ['/', '/', '\x00']

/-- `_contains_invalid_element_char(item)` -/
def containsInvalidElementChar (item : Seg) : Bool := invalidElementChars.any fun c => item.contains c

/-- `_has_insecure_pathelement(path_tuple)`: the intersection with the set is non-empty -/
def hasInsecurePathElement (t : List Seg) : Bool := insecureElements.any fun e => t.contains e

/-- `_secure_path(path_tuple)`; `none` = `None` -/
def securePath (t : List Seg) : Option Text :=
  if hasInsecurePathElement t then none
  else if t.any containsInvalidElementChar then none
  else some (joinWith '/' t)

/-! ### `posixpath.join`, `posixpath.normpath` -/

/-- `posixpath.join(a, b)` -/
def pjoin (a b : Text) : Text :=
  if b.head? = some '/' then b
  else if a = [] ∨ a.getLast? = some '/' then a ++ b
  else a ++ '/' :: b

/-- `initial_slashes` of `normpath`: POSIX allows one or two initial slashes, three or more count as one
(`startswith('//') and not startswith('///')` = exactly two leading slashes). -/
def initialSlashes (p : Text) : Nat :=
  let n := (p.takeWhile (· = '/')).length
  if n = 2 then 2 else if n = 0 then 0 else 1

/-- one round of `for comp in comps`; the stack holds the last component first -/
def npStep (init : Nat) (st : List Seg) (comp : Seg) : List Seg :=
  if comp = [] ∨ comp = ['.'] then st
  else if comp ≠ ['.', '.'] ∨ (init = 0 ∧ st = []) ∨ st.head? = some ['.', '.'] then comp :: st
  else st.tail

def npComps (p : Text) : List Seg := ((splitOn '/' p).foldl (npStep (initialSlashes p)) []).reverse

/-- `posixpath.normpath(path)` -/
def normpath (p : Text) : Text :=
  if p = [] then ['.']
  else
    let r := List.replicate (initialSlashes p) '/' ++ joinWith '/' (npComps p)
    if r = [] then ['.'] else r

/-- `str.rstrip('/')` -/
def rstripSlash (t : Text) : Text := (t.reverse.dropWhile (· = '/')).reverse

/-- `DefaultProvider._fn(module_path, resource_name)`: `os.path.join(base, *resource_name.split('/'))`
(`base` itself when the name is empty) -/
def resourceFilename (base name : Text) : Text :=
  if name = [] then base else (splitOn '/' name).foldl pjoin base

/-! ### the view -/

/-- what the view can observe of the file system -/
structure Fs where
  isDir : Text → Bool
  isThere : Text → Bool
  size : Text → Nat

/-- `os.path.isfile(p)` / `resource_exists(p) and not resource_isdir(p)` -/
def Fs.isRegular (fs : Fs) (p : Text) : Bool := fs.isThere p && !fs.isDir p

abbrev Enc := String

/-- the configuration of one `static_view` -/
structure View where
  pkg : Bool                       -- `self.package_name` is truthy
  base : Text                      -- the package's directory (`module_path`); unused for filesystem roots
  docroot : Text                   -- `self.norm_docroot` (filesystem) / `self.docroot` (package)
  index : Text
  encs : List (Enc × List Text)    -- `self.content_encodings`, in `dict` order

inductive NameOutcome where
  | notFound
  | redirect
  | name (n : Text)
deriving Repr, DecidableEq

/-- the path string the operating system is asked about for a resource name -/
def osPath (v : View) (name : Text) : Text := if v.pkg then resourceFilename v.base name else name

/-- `docroot = self.docroot.rstrip('/')`; `f'{docroot}/{path}' if docroot else path` (3e07f6a: a package-root spec
`pkg:` has an empty docroot and the resource name must stay relative) -/
def pkgResourcePath (docroot path : Text) : Text :=
  if rstripSlash docroot = [] then path else rstripSlash docroot ++ '/' :: path

/-- `get_resource_name` from line 148 on: `segs` is `path_tuple`, `slash` is `request.path_url.endswith('/')` -/
def resourceName (fs : Fs) (v : View) (slash : Bool) (segs : List Seg) : NameOutcome :=
  match securePath segs with
  | none => .notFound
  | some path =>
    if v.pkg then
      let rp := pkgResourcePath v.docroot path
      if fs.isDir (resourceFilename v.base rp) then
        if !slash then .redirect else .name (rstripSlash rp ++ '/' :: v.index)
      else .name rp
    else
      let rp := normpath (pjoin v.docroot path)
      if fs.isDir rp then
        if !slash then .redirect else .name (pjoin rp v.index)
      else .name rp

/-- `find_resource_path(name)`: the path handed to `FileResponse`, `none` when the resource does not exist or is
not a regular file (`isfile(name)`; `resource_exists(pkg, name) and not resource_isdir(pkg, name)`) -/
def findResourcePath (fs : Fs) (v : View) (name : Text) : Option Text :=
  if fs.isRegular (osPath v name) then some (osPath v name) else none

structure Cand where
  path : Text
  enc : Option Enc
deriving Repr, DecidableEq

/-- insert before the first element that is not smaller (so that equal sizes keep their order) -/
def insertBySize (size : Text → Nat) (x : Cand) : List Cand → List Cand
  | [] => [x]
  | y :: ys => if size x.path ≤ size y.path then x :: y :: ys else y :: insertBySize size x ys

/-- `result.sort(key=lambda x: getsize(x[0]))` — a stable sort -/
def sortBySize (size : Text → Nat) : List Cand → List Cand
  | [] => []
  | x :: xs => insertBySize size x (sortBySize size xs)

/-- the unsorted list built by `get_possible_files`: identity first, then every extension of every encoding -/
def candidates (fs : Fs) (v : View) (name : Text) : List Cand :=
  (match findResourcePath fs v name with
   | some p => [⟨p, none⟩]
   | none => []) ++
  v.encs.flatMap fun (e, exts) =>
    exts.filterMap fun ext => (findResourcePath fs v (name ++ ext)).map fun p => ⟨p, some e⟩

/-- `get_possible_files(resource_name)` -/
def possibleFiles (fs : Fs) (v : View) (name : Text) : List Cand := sortBySize fs.size (candidates fs v name)

/-- `find_best_match(request, files)`.  `ae = none`: `not request.accept_encoding`; `ae = some acc`: `acc` lists
the encodings the client accepts (`acceptable_offers(offers)` keeps the offers that are in `acc`). -/
def findBestMatch (ae : Option (List Enc)) (files : List Cand) : Option Cand :=
  match ae with
  | none => (files.find? fun c => c.enc.isNone).map fun c => ⟨c.path, none⟩
  | some acc =>
    let offers := files.filterMap (·.enc)
    let acceptable := offers.filter acc.contains
    files.find? fun c =>
      match c.enc with
      | none => true
      | some e => acceptable.contains e

inductive Outcome where
  | urlDecodeError                                        -- URLDecodeError raised (router / traverser / the view)
  | notFound                                              -- 404
  | redirect                                              -- 301 to `path_url + '/'`
  | isADirectory (path : Text)                            -- `open(path, 'rb')` raises IsADirectoryError
  | file (path : Text) (enc : Option Enc) (vary : Bool)   -- 200, body = bytes of `path`
deriving Repr, DecidableEq

/-- `static_view.__call__` once `path_tuple` is known -/
def staticView (fs : Fs) (v : View) (ae : Option (List Enc)) (slash : Bool) (segs : List Seg) : Outcome :=
  match resourceName fs v slash segs with
  | .notFound => .notFound
  | .redirect => .redirect
  | .name n =>
    let files := possibleFiles fs v n
    match findBestMatch ae files with
    | none => .notFound
    | some c =>
      if fs.isDir c.path then .isADirectory c.path
      else .file c.path c.enc (decide (files.length > 1))

/-! ### asset overrides (src/pyramid/config/assets.py): what a PACKAGE-relative static view sees through
`pkg_resources` when `config.override_asset` was used for its package

`OverrideProvider.has_resource / resource_isdir / get_resource_filename` ask the `PackageOverrides` of the package
first: its overrides most recent first, each a `DirectoryOverride` (`path` empty or ending in `/`: matches names
that start with it, hands the rest to its source) or a `FileOverride` (matches the one name, hands `''`); the first
source in which the thing EXISTS answers; otherwise the package itself.  Sources: a directory/file of a package
(`PackageAssetSource.get_path` = `prefix + name`) or of the file system (`FSAssetSource.get_path` =
`os.path.join(prefix, name.lstrip('/'))`, `prefix` for the empty name).  Filesystem-root static views never go
through this layer. -/

inductive Source where
  | pkg (base pfx : Text)      -- PackageAssetSource: the source package's directory, the prefix
  | fs (pfx : Text)            -- FSAssetSource
deriving Repr, DecidableEq

structure Override where
  path : Text
  src : Source
deriving Repr, DecidableEq

/-- `str.lstrip('/')` -/
def lstripSlash (t : Text) : Text := t.dropWhile (· = '/')

/-- `DirectoryOverride.__call__` / `FileOverride.__call__` (which one: `PackageOverrides.insert`) -/
def Override.apply (o : Override) (name : Text) : Option (Source × Text) :=
  if o.path = [] ∨ o.path.getLast? = some '/' then
    if o.path.isPrefixOf name then some (o.src, name.drop o.path.length) else none
  else if name = o.path then some (o.src, []) else none

/-- the OS path a source resolves a (remaining) name to -/
def Source.osPath : Source → Text → Text
  | .fs pfx, rest => if rest = [] then pfx else pjoin pfx (lstripSlash rest)
  | .pkg base pfx, rest => resourceFilename base (pfx ++ rest)

/-- the first override source (most recent first) in which the name exists: its OS path -/
def ovFirst (fs : Fs) (ovs : List Override) (name : Text) : Option Text :=
  (ovs.filterMap fun o => o.apply name).findSome? fun sr =>
    if fs.isThere (sr.1.osPath sr.2) then some (sr.1.osPath sr.2) else none

/-- a static view together with the overrides declared for its package (most recent first) -/
structure OvView where
  v : View
  ovs : List Override

/-- `resource_filename(pkg, name)` -/
def pkgFilename (fs : Fs) (w : OvView) (name : Text) : Text :=
  (ovFirst fs w.ovs name).getD (resourceFilename w.v.base name)

/-- `resource_exists(pkg, name)` -/
def pkgExists (fs : Fs) (w : OvView) (name : Text) : Bool :=
  (ovFirst fs w.ovs name).isSome || fs.isThere (resourceFilename w.v.base name)

/-- `resource_isdir(pkg, name)` -/
def pkgIsDir (fs : Fs) (w : OvView) (name : Text) : Bool :=
  match ovFirst fs w.ovs name with
  | some p => fs.isDir p
  | none => fs.isDir (resourceFilename w.v.base name)

/-- `ntpath.isabs(s)` (Python 3.12): of the first three characters, `/` read as `\`: a leading separator, or a drive
and a root (`X:\`) -/
def ntIsAbs (n : Text) : Bool :=
  let s := (n.take 3).map fun c => if c = '/' then '\\' else c
  s.head? = some '\\' || (s.drop 1).take 2 = [':', '\\']

/-- `DefaultProvider._validate_resource_path` raises ValueError ("Use of .. or absolute path in a resource path is not
allowed") for a name that is absolute for Windows but not for POSIX (a POSIX-absolute one only earns a warning) -/
def badResName (n : Text) : Bool := (n.head? = some '\\' || ntIsAbs n) && n.head? != some '/'

/-- does asking pkg_resources about `name` raise?  The overrides are walked most recent first: a filesystem source
answers or passes on silently; a package source validates `prefix + rest` first; at the end the package itself
validates `name`. -/
def raisesFrom (fs : Fs) (base : Text) : List (Source × Text) → Text → Bool
  | [], name => badResName name
  | (.fs pfx, rest) :: more, name =>
    if fs.isThere ((Source.fs pfx).osPath rest) then false else raisesFrom fs base more name
  | (.pkg b pfx, rest) :: more, name =>
    if badResName (pfx ++ rest) then true
    else if fs.isThere ((Source.pkg b pfx).osPath rest) then false else raisesFrom fs base more name

def pkgRaises (fs : Fs) (w : OvView) (name : Text) : Bool :=
  raisesFrom fs w.v.base (w.ovs.filterMap fun o => o.apply name) name

/-- `get_resource_name` with the override layer (package branch; the filesystem branch is `resourceName`'s).
fbf36b3: `resource_isdir` is asked first, and a ValueError from it ("absolute" resource name) is answered 404. -/
def resourceNameOv (fs : Fs) (w : OvView) (slash : Bool) (segs : List Seg) : NameOutcome :=
  if w.v.pkg then
    match securePath segs with
    | none => .notFound
    | some path =>
      let rp := pkgResourcePath w.v.docroot path
      if pkgRaises fs w rp then .notFound
      else if pkgIsDir fs w rp then
        if !slash then .redirect else .name (rstripSlash rp ++ '/' :: w.v.index)
      else .name rp
  else resourceName fs w.v slash segs

/-- `find_resource_path` with the override layer.  cb07c73: the three pkg_resources calls are wrapped in
`try … except ValueError: return None` — a name that pkg_resources refuses as absolute is simply not found. -/
def findResourcePathOv (fs : Fs) (w : OvView) (name : Text) : Option Text :=
  if w.v.pkg then
    if pkgRaises fs w name then none
    else if pkgExists fs w name && !pkgIsDir fs w name then some (pkgFilename fs w name) else none
  else findResourcePath fs w.v name

def candidatesOv (fs : Fs) (w : OvView) (name : Text) : List Cand :=
  (match findResourcePathOv fs w name with
   | some p => [⟨p, none⟩]
   | none => []) ++
  w.v.encs.flatMap fun (e, exts) =>
    exts.filterMap fun ext => (findResourcePathOv fs w (name ++ ext)).map fun p => ⟨p, some e⟩

/-- `static_view.__call__` with the override layer -/
def staticViewOv (fs : Fs) (w : OvView) (ae : Option (List Enc)) (slash : Bool) (segs : List Seg) : Outcome :=
  match resourceNameOv fs w slash segs with
  | .notFound => .notFound
  | .redirect => .redirect
  | .name n =>
    let files := sortBySize fs.size (candidatesOv fs w n)
    match findBestMatch ae files with
    | none => .notFound
    | some c =>
      if fs.isDir c.path then .isADirectory c.path
      else .file c.path c.enc (decide (files.length > 1))

/-! ### the mountings -/

def endsWithSlash (t : Text) : Bool := t.getLast? = some '/'

/-- the matcher of the route `<prefix>*subpath` (`re.escape(prefix) + '(?P<subpath>(?s:.*?))\Z'`: the remainder
captures whatever is left of the path, a newline included — fc43a19): the text after the literal prefix -/
def routeRemainder (pfx path : Text) : Option Text :=
  if pfx.isPrefixOf path then some (path.drop pfx.length) else none

/-- `config.add_static_view(name, root)`: request with raw `PATH_INFO` `wsgi` through the router -/
def serveSub (fs : Fs) (v : View) (ae : Option (List Enc)) (pfx : Text) (wsgi : Bytes) : Outcome :=
  match decodePathInfo wsgi with
  | none => .urlDecodeError
  | some t =>
    match routeRemainder pfx (if t = [] then ['/'] else t) with
    | none => .notFound
    | some rest => staticView fs v ae (endsWithSlash t) (splitPathInfo rest)

/-- traversal over resources that accept every name: the walk consumes segments until one starts with `@@`;
the default (unnamed) view is found iff the view name is empty -/
def traversalReaches : List Seg → Bool
  | [] => true
  | s :: rest => if s.take 2 = ['@', '@'] then s.drop 2 = [] else traversalReaches rest

/-- `config.add_view(static_view(root, use_subpath=False))` in such an application.  The view computes
`traversal_path_info(request.environ.get('PATH_INFO', '/'))` (lines 150-152): the raw WSGI string, decoded once. -/
def servePlain (fs : Fs) (v : View) (ae : Option (List Enc)) (wsgi : Bytes) : Outcome :=
  match decodePathInfo wsgi with
  | none => .urlDecodeError
  | some t =>
    if traversalReaches (splitPathInfo (if t = [] then ['/'] else t)) then
      staticView fs v ae (endsWithSlash t) (splitPathInfo t)
    else .notFound

/-- the two router mountings with the override layer -/
def serveSubOv (fs : Fs) (w : OvView) (ae : Option (List Enc)) (pfx : Text) (wsgi : Bytes) : Outcome :=
  match decodePathInfo wsgi with
  | none => .urlDecodeError
  | some t =>
    match routeRemainder pfx (if t = [] then ['/'] else t) with
    | none => .notFound
    | some rest => staticViewOv fs w ae (endsWithSlash t) (splitPathInfo rest)

def servePlainOv (fs : Fs) (w : OvView) (ae : Option (List Enc)) (wsgi : Bytes) : Outcome :=
  match decodePathInfo wsgi with
  | none => .urlDecodeError
  | some t =>
    if traversalReaches (splitPathInfo (if t = [] then ['/'] else t)) then
      staticViewOv fs w ae (endsWithSlash t) (splitPathInfo t)
    else .notFound

/-- `static_view(root, use_subpath=True)(context, request)` with `request.subpath = segs` -/
def serveDirect (fs : Fs) (v : View) (ae : Option (List Enc)) (slash : Bool) (segs : List Seg) : Outcome :=
  staticView fs v ae slash segs

end Pyr.Static
