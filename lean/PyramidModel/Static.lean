import PyramidModel.Traversal
/-
C16 — executable model of `pyramid.static.static_view` (src/pyramid/static.py) with the two ways of mounting it,
core Lean only.

Functions modelled (line numbers of src/pyramid/static.py unless said otherwise)
* `insecureElements`, `invalidElementChars`, `containsInvalidElementChar`, `hasInsecurePathElement`,
  `securePath`                      `_invalid_element_chars`, `_contains_invalid_element_char`,
                                    `_has_insecure_pathelement`, `_secure_path`                       (277-299)
* `pjoin`                           `posixpath.join(a, b)`
* `initialSlashes`, `npStep`, `normpath`   `posixpath.normpath`
* `resourceFilename`                `pkg_resources.DefaultProvider._fn`: `os.path.join(base, *name.split('/'))`
* `resourceName`                    `static_view.get_resource_name` after the tuple is known            (148-172)
* `findResourcePath`                `static_view.find_resource_path`                                  (174-185)
* `sortBySize`, `possibleFiles`     `static_view.get_possible_files` (stable sort by size)            (187-220)
* `findBestMatch`                   `static_view.find_best_match`                                     (222-247)
* `staticView`                      `static_view.__call__` + `FileResponse` opening the file          (118-135)
* `routeRemainder`, `serveSub`      the route `<name>/*subpath` that `add_static_view` registers
                                    (config/views.py 2249-2261; urldispatch.py `_compile_route`, `RoutesMapper.__call__`)
* `traversalReaches`, `servePlain`  `static_view(..., use_subpath=False)` registered as the default view of a
                                    traversal application whose resources accept every name (the view reads
                                    `traversal_path_info(request.environ.get('PATH_INFO', '/'))`: one decoding)
* `serveDirect`                     `static_view(..., use_subpath=True)` called with a given `request.subpath`

The file system is abstract (`Fs`: which path strings are directories, which exist, sizes): symlinks, mounts and
case folding are outside the model (DESIGN §7).  WebOb's `acceptable_offers` is a parameter: the list of
content encodings the client accepts.  `lru_cache` / `filemap` caches are not modelled (the model is a function).
-/
namespace Pyr.Static

open Pyr.Trav (Seg Bytes splitOn joinWith splitPathInfo decodePathInfo)

/-! ### `_secure_path` -/

/-- `{'..', '.', ''}` -/
def insecureElements : List Seg := [['.', '.'], ['.'], []]

/-- `{'/', os.sep, '\x00'}` on POSIX -/
def invalidElementChars : List Char := ['/', '/', '\x00']

/-- `_contains_invalid_element_char(item)` -/
def containsInvalidElementChar (item : Seg) : Bool := invalidElementChars.any fun c => item.contains c

/-- `_has_insecure_pathelement(path_tuple)`: the intersection with the set is non-empty -/
def hasInsecurePathElement (t : List Seg) : Bool := insecureElements.any fun e => t.contains e

/-- `_secure_path(path_tuple)`; `none` = `None` -/
def securePath (t : List Seg) : Option Text :=
  if hasInsecurePathElement t then none
  else if t.any containsInvalidElementChar then none
  else some (joinWith '/' t)

/-! ### `posixpath.join`, `posixpath.normpath` -/

/-- `posixpath.join(a, b)` -/
def pjoin (a b : Text) : Text :=
  if b.head? = some '/' then b
  else if a = [] ∨ a.getLast? = some '/' then a ++ b
  else a ++ '/' :: b

/-- `initial_slashes` of `normpath`: POSIX allows one or two initial slashes, three or more count as one
(`startswith('//') and not startswith('///')` = exactly two leading slashes). -/
def initialSlashes (p : Text) : Nat :=
  let n := (p.takeWhile (· = '/')).length
  if n = 2 then 2 else if n = 0 then 0 else 1

/-- one round of `for comp in comps`; the stack holds the last component first -/
def npStep (init : Nat) (st : List Seg) (comp : Seg) : List Seg :=
  if comp = [] ∨ comp = ['.'] then st
  else if comp ≠ ['.', '.'] ∨ (init = 0 ∧ st = []) ∨ st.head? = some ['.', '.'] then comp :: st
  else st.tail

def npComps (p : Text) : List Seg := ((splitOn '/' p).foldl (npStep (initialSlashes p)) []).reverse

/-- `posixpath.normpath(path)` -/
def normpath (p : Text) : Text :=
  if p = [] then ['.']
  else
    let r := List.replicate (initialSlashes p) '/' ++ joinWith '/' (npComps p)
    if r = [] then ['.'] else r

/-- `str.rstrip('/')` -/
def rstripSlash (t : Text) : Text := (t.reverse.dropWhile (· = '/')).reverse

/-- `DefaultProvider._fn(module_path, resource_name)`: `os.path.join(base, *resource_name.split('/'))`
(`base` itself when the name is empty) -/
def resourceFilename (base name : Text) : Text :=
  if name = [] then base else (splitOn '/' name).foldl pjoin base

/-! ### the view -/

/-- what the view can observe of the file system -/
structure Fs where
  isDir : Text → Bool
  isThere : Text → Bool
  size : Text → Nat

/-- `os.path.isfile(p)` / `resource_exists(p) and not resource_isdir(p)` -/
def Fs.isRegular (fs : Fs) (p : Text) : Bool := fs.isThere p && !fs.isDir p

abbrev Enc := String

/-- the configuration of one `static_view` -/
structure View where
  pkg : Bool                       -- `self.package_name` is truthy
  base : Text                      -- the package's directory (`module_path`); unused for filesystem roots
  docroot : Text                   -- `self.norm_docroot` (filesystem) / `self.docroot` (package)
  index : Text
  encs : List (Enc × List Text)    -- `self.content_encodings`, in `dict` order

inductive NameOutcome where
  | notFound
  | redirect
  | name (n : Text)
deriving Repr, DecidableEq

/-- the path string the operating system is asked about for a resource name -/
def osPath (v : View) (name : Text) : Text := if v.pkg then resourceFilename v.base name else name

/-- `get_resource_name` from line 148 on: `segs` is `path_tuple`, `slash` is `request.path_url.endswith('/')` -/
def resourceName (fs : Fs) (v : View) (slash : Bool) (segs : List Seg) : NameOutcome :=
  match securePath segs with
  | none => .notFound
  | some path =>
    if v.pkg then
      let rp := rstripSlash v.docroot ++ '/' :: path
      if fs.isDir (resourceFilename v.base rp) then
        if !slash then .redirect else .name (rstripSlash rp ++ '/' :: v.index)
      else .name rp
    else
      let rp := normpath (pjoin v.docroot path)
      if fs.isDir rp then
        if !slash then .redirect else .name (pjoin rp v.index)
      else .name rp

/-- `find_resource_path(name)`: the path handed to `FileResponse`, `none` when the resource does not exist or is
not a regular file (`isfile(name)`; `resource_exists(pkg, name) and not resource_isdir(pkg, name)`) -/
def findResourcePath (fs : Fs) (v : View) (name : Text) : Option Text :=
  if fs.isRegular (osPath v name) then some (osPath v name) else none

structure Cand where
  path : Text
  enc : Option Enc
deriving Repr, DecidableEq

/-- insert before the first element that is not smaller (so that equal sizes keep their order) -/
def insertBySize (size : Text → Nat) (x : Cand) : List Cand → List Cand
  | [] => [x]
  | y :: ys => if size x.path ≤ size y.path then x :: y :: ys else y :: insertBySize size x ys

/-- `result.sort(key=lambda x: getsize(x[0]))` — a stable sort -/
def sortBySize (size : Text → Nat) : List Cand → List Cand
  | [] => []
  | x :: xs => insertBySize size x (sortBySize size xs)

/-- the unsorted list built by `get_possible_files`: identity first, then every extension of every encoding -/
def candidates (fs : Fs) (v : View) (name : Text) : List Cand :=
  (match findResourcePath fs v name with
   | some p => [⟨p, none⟩]
   | none => []) ++
  v.encs.flatMap fun (e, exts) =>
    exts.filterMap fun ext => (findResourcePath fs v (name ++ ext)).map fun p => ⟨p, some e⟩

/-- `get_possible_files(resource_name)` -/
def possibleFiles (fs : Fs) (v : View) (name : Text) : List Cand := sortBySize fs.size (candidates fs v name)

/-- `find_best_match(request, files)`.  `ae = none`: `not request.accept_encoding`; `ae = some acc`: `acc` lists
the encodings the client accepts (`acceptable_offers(offers)` keeps the offers that are in `acc`). -/
def findBestMatch (ae : Option (List Enc)) (files : List Cand) : Option Cand :=
  match ae with
  | none => (files.find? fun c => c.enc.isNone).map fun c => ⟨c.path, none⟩
  | some acc =>
    let offers := files.filterMap (·.enc)
    let acceptable := offers.filter acc.contains
    files.find? fun c =>
      match c.enc with
      | none => true
      | some e => acceptable.contains e

inductive Outcome where
  | urlDecodeError                                        -- URLDecodeError raised (router / traverser / the view)
  | notFound                                              -- 404
  | redirect                                              -- 301 to `path_url + '/'`
  | isADirectory (path : Text)                            -- `open(path, 'rb')` raises IsADirectoryError
  | file (path : Text) (enc : Option Enc) (vary : Bool)   -- 200, body = bytes of `path`
deriving Repr, DecidableEq

/-- `static_view.__call__` once `path_tuple` is known -/
def staticView (fs : Fs) (v : View) (ae : Option (List Enc)) (slash : Bool) (segs : List Seg) : Outcome :=
  match resourceName fs v slash segs with
  | .notFound => .notFound
  | .redirect => .redirect
  | .name n =>
    let files := possibleFiles fs v n
    match findBestMatch ae files with
    | none => .notFound
    | some c =>
      if fs.isDir c.path then .isADirectory c.path
      else .file c.path c.enc (decide (files.length > 1))

/-! ### the mountings -/

def endsWithSlash (t : Text) : Bool := t.getLast? = some '/'

/-- the matcher of the route `<prefix>*subpath` (`re.escape(prefix) + '(?P<subpath>(?s:.*?))\Z'`: the remainder
captures whatever is left of the path, a newline included — fc43a19): the text after the literal prefix -/
def routeRemainder (pfx path : Text) : Option Text :=
  if pfx.isPrefixOf path then some (path.drop pfx.length) else none

/-- `config.add_static_view(name, root)`: request with raw `PATH_INFO` `wsgi` through the router -/
def serveSub (fs : Fs) (v : View) (ae : Option (List Enc)) (pfx : Text) (wsgi : Bytes) : Outcome :=
  match decodePathInfo wsgi with
  | none => .urlDecodeError
  | some t =>
    match routeRemainder pfx (if t = [] then ['/'] else t) with
    | none => .notFound
    | some rest => staticView fs v ae (endsWithSlash t) (splitPathInfo rest)

/-- traversal over resources that accept every name: the walk consumes segments until one starts with `@@`;
the default (unnamed) view is found iff the view name is empty -/
def traversalReaches : List Seg → Bool
  | [] => true
  | s :: rest => if s.take 2 = ['@', '@'] then s.drop 2 = [] else traversalReaches rest

/-- `config.add_view(static_view(root, use_subpath=False))` in such an application.  The view computes
`traversal_path_info(request.environ.get('PATH_INFO', '/'))` (lines 150-152): the raw WSGI string, decoded once. -/
def servePlain (fs : Fs) (v : View) (ae : Option (List Enc)) (wsgi : Bytes) : Outcome :=
  match decodePathInfo wsgi with
  | none => .urlDecodeError
  | some t =>
    if traversalReaches (splitPathInfo (if t = [] then ['/'] else t)) then
      staticView fs v ae (endsWithSlash t) (splitPathInfo t)
    else .notFound

/-- `static_view(root, use_subpath=True)(context, request)` with `request.subpath = segs` -/
def serveDirect (fs : Fs) (v : View) (ae : Option (List Enc)) (slash : Bool) (segs : List Seg) : Outcome :=
  staticView fs v ae slash segs

end Pyr.Static
