-- driver stub for C19 (replaced when the model is built)
def main : IO Unit := pure ()
