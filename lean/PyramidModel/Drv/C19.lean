import PyramidModel.Prelude
import PyramidModel.HttpExc
import PyramidModel.Gen.C19
import PyramidModel.Lemmas.HttpExcSpec
/-! Driver for C19: one JSON case per line.
in : {"cls": "HTTPNotFound" | {"code":n,"title":s,"explanation":s,"body":s,"html":s,"plain":s,"custom":b,"empty":b},
      "detail": null|s, "comment": null|s, "explanation": null|s, "body_template": null|s, "has_body": b, "status": null|s,
      "detail_html"/"comment_html"/"explanation_html": null|s  (the value is a markup object; this is its __html__()),
      "headers": [[k,v],…], "environ": [[k,v],…], "q": {"text/html":n,"application/json":n,"text/plain":n}}
     (q in thousandths; 0/absent = not acceptable; strings are Python str without lone surrogates)
out: {"r":"untouched"} | {"r":"err","err":"key","name":s} | {"r":"err","err":"invalid"} |
     {"r":"ok","form":"html|json|plain","ctype":s,"ctype_header":s,"body":s,
      "spec":{"form":…  (argmax-q spec), "body":… (piece-wise rendering, flattened), "user_clean":b,
              "json":null|[[k,v],…] (the Lean JSON reader applied to the body)}}
ops: {"op":"escape","text":s} → {"escaped":s,"unescaped":s,"entities_ok":b}
     {"op":"template","text":s,"env":[[k,v],…]} → substitute result + token kinds
     {"op":"classes"} → the generated class table (name, code, title, custom, empty) -/
open Pyr Pyr.HttpExc Lean

def txt (s : String) : Text := s.toList
def str (t : Text) : String := String.ofList t

def optText (j : Json) (k : String) : Except String (Option Text) :=
  match j.getObjVal? k with
  | .error _ => pure none
  | .ok .null => pure none
  | .ok (.str s) => pure (some (txt s))
  | .ok _ => throw s!"{k}: expected string or null"

def reqText (j : Json) (k : String) : Except String Text := do
  let s : String ← getAs j k
  pure (txt s)

def pairs (j : Json) (k : String) : Except String (List (Text × Text)) :=
  match j.getObjVal? k with
  | .error _ => pure []
  | .ok (.arr xs) => xs.toList.mapM fun x =>
      match x with
      | .arr #[.str a, .str b] => pure (txt a, txt b)
      | _ => throw s!"{k}: expected [str,str]"
  | .ok _ => throw s!"{k}: expected a list"

def parseClass (j : Json) : Except String ClassInfo :=
  match j with
  | .str n =>
    match Pyr.Gen.C19.classes.find? (fun c => c.name == n) with
    | some c => pure c
    | none => throw s!"unknown class {n}"
  | j => do
    let code : Nat ← getAs j "code"
    let custom : Bool ← getAs j "custom"
    let empty : Bool ← getAs j "empty"
    pure { name := "adhoc", code := code, title := ← reqText j "title", explanation := ← reqText j "explanation",
           bodyTmpl := ← reqText j "body", custom := custom, emptyBody := empty,
           htmlTmpl := ← reqText j "html", plainTmpl := ← reqText j "plain" }

def formName : Form → String
  | .html => "html" | .json => "json" | .plain => "plain"

def errJson : Err → Json
  | .key n => Json.mkObj [("r", "err"), ("err", "key"), ("name", str n)]
  | .invalid => Json.mkObj [("r", "err"), ("err", "invalid")]

def tokJson : Tok → Json
  | .lit c => Json.mkObj [("lit", str [c])]
  | .esc => Json.str "esc"
  | .named n => Json.mkObj [("named", str n)]
  | .braced n => Json.mkObj [("braced", str n)]
  | .invalid r => Json.mkObj [("invalid", str r)]

def runCase (j : Json) : Except String Json := do
  match j.getObjVal? "op" with
  | .ok (.str "escape") =>
    let t ← reqText j "text"
    let e := htmlEscape t
    return Json.mkObj [("escaped", str e), ("unescaped", str (htmlUnescape e)), ("entities_ok", toJson (entitiesOk e)),
                       ("json", str (jsonStr t)),
                       ("json_back", match readJsonString (jsonStr t) with
                                     | some (s, []) => Json.str (str s)
                                     | _ => Json.null)]
  | .ok (.str "template") =>
    let t ← reqText j "text"
    let env ← pairs j "env"
    let toks := tokenize t
    let r := substitute (fun k => lookupLast k env) t
    let rj := match r with
      | .ok o => Json.mkObj [("r", "ok"), ("out", str o)]
      | .error e => errJson e
    let viaToks := match fill (fun k => lookupLast k env) toks with
      | .ok o => Json.mkObj [("r", "ok"), ("out", str o)]
      | .error e => errJson e
    return Json.mkObj [("result", rj), ("via_tokens", viaToks), ("tokens", Json.arr (toks.map tokJson).toArray),
                       ("detok", str (detok toks))]
  | .ok (.str "classes") =>
    return Json.arr (Pyr.Gen.C19.classes.map fun c =>
      Json.mkObj [("name", c.name), ("code", toJson c.code), ("title", str c.title), ("explanation", str c.explanation),
                  ("custom", toJson c.custom), ("empty", toJson c.emptyBody), ("body", str c.bodyTmpl),
                  ("html", str c.htmlTmpl), ("plain", str c.plainTmpl)]).toArray
  | _ =>
    let cj ← getField j "cls"
    let cls ← parseClass cj
    let detail ← optText j "detail"
    let comment ← optText j "comment"
    let expl ← optText j "explanation"
    let bt ← optText j "body_template"
    let hasBody : Bool := match j.getObjVal? "has_body" with
      | .ok (.bool b) => b
      | _ => false
    let headers ← pairs j "headers"
    let environ ← pairs j "environ"
    let qj := (j.getObjVal? "q").toOption.getD (Json.mkObj [])
    let q : Text → Nat := fun m =>
      match qj.getObjVal? (str m) with
      | .ok v => match (fromJson? v : Except String Nat) with
        | .ok n => n
        | .error _ => 0
      | .error _ => 0
    let e0 := cls.toExc detail comment headers
    let e1 : Exc := { e0 with hasBody := hasBody, explanation := expl.getD e0.explanation }
    let st ← optText j "status"
    let e2 : Exc := match bt with
      | some t => { e1 with bodyTmpl := t, custom := true }
      | none => e1
    let dh ← optText j "detail_html"
    let ch ← optText j "comment_html"
    let xh ← optText j "explanation_html"
    let e : Exc := { e2 with status := st.getD e2.status, detailHtml := dh, commentHtml := ch, explanationHtml := xh }
    match prepare offeredForms e environ q with
    | .error err => return errJson err
    | .ok none => return Json.mkObj [("r", "untouched")]
    | .ok (some r) =>
      let specForm := bestForm q
      let specBody : Json := match specRender specForm (e.withContentType specForm) environ with
        | .ok ps => Json.mkObj [("body", str (flattenPieces ps)), ("user_clean", toJson (userPiecesClean specForm ps))]
        | .error _ => Json.null
      let js : Json := match r.form with
        | .json => match readJsonObject r.body with
          | some kvs => Json.arr (kvs.map fun kv => Json.arr #[Json.str (str kv.1), Json.str (str kv.2)]).toArray
          | none => Json.null
        | _ => Json.null
      return Json.mkObj [("r", "ok"), ("form", formName r.form), ("ctype", str r.contentType), ("ctype_header", str r.contentTypeHeader),
                         ("body", str r.body),
                         ("spec", Json.mkObj [("form", formName specForm), ("render", specBody), ("json", js)])]

/-- the reply on one ASCII-only line (Python's `splitlines` also splits at U+0085, U+2028, …) -/
def asciiOnly (s : String) : String :=
  String.ofList (s.toList.flatMap fun c => if c.toNat < 127 then [c] else jsonEncChar c)

def main : IO Unit := do
  let i ← IO.getStdin
  let o ← IO.getStdout
  lineLoop i o fun l =>
    asciiOnly <|
      match Json.parse l with
      | .error e => (Json.mkObj [("error", Json.str s!"parse: {e}")]).compress
      | .ok j =>
        match runCase j with
        | .ok r => r.compress
        | .error e => (Json.mkObj [("error", Json.str e)]).compress
