import PyramidModel.Renderers
import PyramidModel.Lemmas.RenderersSpec
import PyramidModel.Gen.X03
/-!
X03 driver.  One JSON case per line:

  {"k":"cb","cb":[codes]}                        → {"accept":bool}
  {"k":"dumps","v":VAL,"regs":[[spec,adapter]]}  → {"text":[codes]|null,"plain":bool,"roundtrip":bool|null}
  {"k":"lookup","sro":[ids],"regs":[[s,a]]}      → {"adapter":id|null}
  {"k":"view", "renderer":R|null, "override":R|null, "param":[codes], "regs":[[s,a]], "params":[[[codes],[codes]]],
     "respCt":[codes], "dflt":[codes], "status":n, "result":RESULT}
        → {"ok":{"status":n,"ct":[codes],"body":{"t":[codes]}|{"b":[bytes]}|null,"left":bool}} | {"err":name}

VAL    := null | true | false | n | {"s":[codes]} | {"a":[VAL…]} | {"o":[[[codes],VAL]…]} | {"c":{"sro":[ids],"json":bool,"p":VAL}}
RESULT := {"t":"response"|"iresponse","status":n,"ct":[codes],"body":[codes]} | {"t":"bytes","b":[bytes],"sro":[ids]} | {"t":"value","v":VAL}
R      := "json" | "jsonp" | "string" | "raw" | "missing"
-/
open Lean (Json)
open Pyr Pyr.Render

def codes (t : Text) : Json := Json.arr (t.map fun (c : Char) => Json.num (Int.ofNat c.toNat)).toArray

def getText (j : Json) : Except String Text := do
  let a ← j.getArr?
  a.toList.mapM fun x => do
    let n ← x.getNat?
    pure (Char.ofNat n)

def getNats (j : Json) : Except String (List Nat) := do
  let a ← j.getArr?
  a.toList.mapM fun x => x.getNat?

def getRegs (j : Json) : Except String Regs := do
  let a ← j.getArr?
  a.toList.mapM fun x => do
    let p ← getNats x
    match p with
    | [s, ad] => pure (s, ad)
    | _ => throw "reg"

partial def getVal (j : Json) : Except String Val :=
  match j with
  | .null => pure .null
  | .bool b => pure (.bool b)
  | .num n => if n.exponent = 0 then pure (.int n.mantissa) else throw "non-integer number"
  | _ => do
    if let .ok s := j.getObjVal? "s" then
      return .str (← getText s)
    if let .ok a := j.getObjVal? "a" then
      let xs ← (← a.getArr?).toList.mapM getVal
      return .arr (xs.foldr Vals.cons .nil)
    if let .ok o := j.getObjVal? "o" then
      let ms ← (← o.getArr?).toList.mapM fun m => do
        let p ← m.getArr?
        if h : p.size = 2 then
          let k ← getText p[0]
          let v ← getVal p[1]
          pure (k, v)
        else throw "member"
      return .obj (ms.foldr (fun m r => Mems.cons m.1 m.2 r) .nil)
    if let .ok c := j.getObjVal? "c" then
      let sro ← getNats (← c.getObjVal? "sro")
      let hj ← (← c.getObjVal? "json").getBool?
      let p ← getVal (← c.getObjVal? "p")
      return .custom sro hj p
    throw "value"

def getRName (j : Json) : Except String (Option RName) :=
  match j with
  | .null => pure none
  | .str "json" => pure (some .json)
  | .str "jsonp" => pure (some .jsonp)
  | .str "string" => pure (some .string)
  | .str "raw" => pure (some .raw)
  | .str "missing" => pure (some .missing)
  | _ => throw "renderer name"

def getResult (j : Json) : Except String Result := do
  let t ← (← j.getObjVal? "t").getStr?
  match t with
  | "response" | "iresponse" =>
    let st ← (← j.getObjVal? "status").getNat?
    let ct ← getText (← j.getObjVal? "ct")
    let body ← getText (← j.getObjVal? "body")
    let r : Resp := ⟨st, ct, .text body⟩
    pure (if t = "response" then .response r else .iresponse r)
  | "bytes" => pure (.bytes (← getNats (← j.getObjVal? "b")) (← getNats (← j.getObjVal? "sro")))
  | "value" => pure (.value (← getVal (← j.getObjVal? "v")))
  | _ => throw "result"

def renderedJson : Rendered → Json
  | .text t => Json.mkObj [("t", codes t)]
  | .bytes b => Json.mkObj [("b", Json.arr (b.map fun (n : Nat) => Json.num (Int.ofNat n)).toArray)]
  | .none => Json.null

def errName : Err → String
  | .badRequest => "badRequest"
  | .typeError => "typeError"
  | .valueError => "valueError"
  | .unmodelled => "unmodelled"

def tb : Tables := Pyr.Gen.X03.tables

def handle (j : Json) : Except String Json := do
  let k ← (← j.getObjVal? "k").getStr?
  match k with
  | "cb" =>
    let cb ← getText (← j.getObjVal? "cb")
    pure (Json.mkObj [("accept", Json.bool (accepts tb.pattern cb))])
  | "dumps" =>
    let v ← getVal (← j.getObjVal? "v")
    let regs ← getRegs (← j.getObjVal? "regs")
    match resolve regs v with
    | none => pure (Json.mkObj [("text", Json.null), ("plain", Json.bool v.plain), ("roundtrip", Json.null)])
    | some w =>
      let txt := dumps w
      let rt := match loads txt with
        | some w' => Val.beq w w'
        | none => false
      pure (Json.mkObj [("text", codes txt), ("plain", Json.bool v.plain), ("roundtrip", Json.bool rt)])
  | "lookup" =>
    let sro ← getNats (← j.getObjVal? "sro")
    let regs ← getRegs (← j.getObjVal? "regs")
    pure (Json.mkObj [("adapter", match lookupAdapter regs sro with
      | some a => Json.num (Int.ofNat a)
      | none => Json.null)])
  | "view" =>
    let params ← (← (← j.getObjVal? "params").getArr?).toList.mapM fun p => do
      let a ← p.getArr?
      if h : a.size = 2 then pure ((← getText a[0]), (← getText a[1])) else throw "param"
    let c : Case := {
      renderer := ← getRName (← j.getObjVal? "renderer")
      override := ← getRName (← j.getObjVal? "override")
      paramName := ← getText (← j.getObjVal? "param")
      regs := ← getRegs (← j.getObjVal? "regs")
      params := params
      respCt := ← getText (← j.getObjVal? "respCt")
      dflt := ← getText (← j.getObjVal? "dflt")
      respStatus := ← (← j.getObjVal? "status").getNat?
      result := ← getResult (← j.getObjVal? "result") }
    match renderedView tb c with
    | .error e => pure (Json.mkObj [("err", Json.str (errName e))])
    | .ok o =>
      pure (Json.mkObj [("ok", Json.mkObj [("status", Json.num (Int.ofNat o.resp.status)), ("ct", codes o.resp.ct),
        ("body", renderedJson o.resp.body), ("left", Json.bool o.overrideLeft)])])
  | _ => throw s!"unknown case kind {k}"

def main : IO Unit := jsonDriver handle
