-- stub driver, replaced by the builder of X03
def main : IO Unit := pure ()
