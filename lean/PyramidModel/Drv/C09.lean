-- driver stub for C09 (replaced when the model is built)
def main : IO Unit := pure ()
