import PyramidModel.Prelude
import PyramidModel.AuthTkt
/-! Driver for C09: one JSON case (= one request under one helper configuration) per line.
in : {"cfg":{"secret":s,"name":s,"secure":b,"include_ip":b,"timeout":n|null,"reissue":n|null,"max_age":n|null,
             "http_only":b,"path":s,"wild":b,"parent":b,"domain":s|null,"samesite":s|null,"hsize":n},
      "req":{"cookie":s|null,"ip":s,"domain":s,"now":n,"clock":n},
      "ops":[{"op":"identify"}|{"op":"remember","uid":{"t":"int|str|bytes|other","v":s},"max_age":n|null,"tokens":[s|null]}|{"op":"forget"}],
      "hash":{"<input hex>":"<digest hex>"},      -- the hash function, as a table (answered by hashlib in the harness)
      "uni":{"<code point>":"s"|d}}               -- Unicode database facts about the non-ASCII characters of the case
out: {"results":[…per op…],"response":[cookies appended by the response callbacks],"st":{"reissued":b,"revoked":b},
      "dins":[first-hash input (hex) the model computed for the op | null],
      "spec":[per identify op: {"digest_ok":b|null,"fields":…}]} -/
open Pyr Pyr.AuthTkt Lean

def hexNibble (c : Char) : Option Nat :=
  if '0' ≤ c ∧ c ≤ '9' then some (c.toNat - 48)
  else if 'a' ≤ c ∧ c ≤ 'f' then some (c.toNat - 87)
  else if 'A' ≤ c ∧ c ≤ 'F' then some (c.toNat - 55)
  else none

def unhex : List Char → Except String Bytes
  | [] => pure []
  | a :: b :: r =>
    match hexNibble a, hexNibble b with
    | some x, some y => do pure (UInt8.ofNat (x * 16 + y) :: (← unhex r))
    | _, _ => throw "bad hex"
  | _ => throw "odd hex"

def hexStr (bs : Bytes) : String := String.ofList (hexOf bs)

def optNat (j : Json) (k : String) : Except String (Option Nat) := do
  match j.getObjVal? k with
  | .ok .null => pure none
  | .ok v => do let n : Nat ← fromJson? v; pure (some n)
  | .error _ => pure none

def optText (j : Json) (k : String) : Except String (Option Text) := do
  match j.getObjVal? k with
  | .ok .null => pure none
  | .ok v => do let s : String ← fromJson? v; pure (some s.toList)
  | .error _ => pure none

def getText (j : Json) (k : String) : Except String Text := do
  let s : String ← getAs j k
  pure s.toList

def parseCfg (j : Json) : Except String (Cfg × Nat) := do
  let cfg : Cfg := {
    secret := ← getText j "secret"
    cookieName := ← getText j "name"
    secure := ← getAs j "secure"
    includeIp := ← getAs j "include_ip"
    timeout := ← optNat j "timeout"
    reissueTime := ← optNat j "reissue"
    maxAge := ← optNat j "max_age"
    httpOnly := ← getAs j "http_only"
    path := ← getText j "path"
    wildDomain := ← getAs j "wild"
    parentDomain := ← getAs j "parent"
    domain := ← optText j "domain"
    samesite := ← optText j "samesite" }
  let hsize : Nat ← getAs j "hsize"
  pure (cfg, hsize)

def parseReq (j : Json) : Except String Req := do
  pure { cookie := ← optText j "cookie", remoteAddr := ← getText j "ip", domain := ← getText j "domain",
         now := ← getAs j "now", clock := ← getAs j "clock" }

def parseIntStr (s : String) : Except String Int :=
  match s.toInt? with
  | some z => pure z
  | none => throw s!"bad int {s}"

def parseUid (j : Json) : Except String UserId := do
  let t : String ← getAs j "t"
  let v : String ← getAs j "v"
  match t with
  | "int" => do pure (.int (← parseIntStr v))
  | "str" => pure (.str v.toList)
  | "bytes" => do pure (.bytes (← unhex v.toList))
  | "other" => pure (.other v.toList)
  | _ => throw "bad uid type"

def parseTok (j : Json) : Except String Tok :=
  match j with
  | .str s => pure (.str s.toList)
  | _ => pure .nonstr

def parseOp (j : Json) : Except String Op := do
  let o : String ← getAs j "op"
  match o with
  | "identify" => pure .identify
  | "forget" => pure .forget
  | "remember" => do
    let uid ← parseUid (← getField j "uid")
    let ma ← optNat j "max_age"
    let toks ← match (← getField j "tokens") with
      | .arr xs => xs.toList.mapM parseTok
      | _ => throw "bad tokens"
    pure (.remember uid ma toks)
  | _ => throw "bad op"

def parseHash (j : Json) (hsize : Nat) : Except String Hash := do
  match j with
  | .obj kvs =>
    let tbl ← kvs.toList.mapM fun (k, v) => do
      let o : String ← fromJson? v
      pure (← unhex k.toList, ← unhex o.toList)
    pure { size := hsize, fn := fun x => match tbl.find? (·.1 == x) with | some (_, o) => o | none => [] }
  | _ => throw "bad hash table"

def parseUni (j : Json) : Except String Uni := do
  match j with
  | .obj kvs =>
    let tbl ← kvs.toList.mapM fun (k, v) => do
      let cp ← match k.toNat? with | some n => pure n | none => throw "bad code point"
      match v with
      | .str _ => pure (cp, (none : Option Nat))
      | v => do let d : Nat ← fromJson? v; pure (cp, some d)
    pure { isSpace := fun c => tbl.any fun (cp, d) => cp == c.toNat && d.isNone,
           decimal := fun c => match tbl.find? (·.1 == c.toNat) with | some (_, d) => d | none => none }
  | _ => throw "bad uni table"

def errName : Err → String
  | .valueError => "ValueError" | .unicodeEncodeError => "UnicodeEncodeError"
  | .unicodeDecodeError => "UnicodeDecodeError" | .binasciiError => "binascii.Error" | .typeError => "TypeError"
  | .unmodelled => "unmodelled"

def txt (t : Text) : Json := Json.str (String.ofList t)
def optTxt : Option Text → Json | some t => txt t | none => .null
def optN : Option Nat → Json | some n => toJson n | none => .null

def uidJson : UserId → Json
  | .int z => Json.mkObj [("t", "int"), ("v", Json.str (toString z))]
  | .str t => Json.mkObj [("t", "str"), ("v", txt t)]
  | .bytes b => Json.mkObj [("t", "bytes"), ("v", Json.str (hexStr b))]
  | .other t => Json.mkObj [("t", "other"), ("v", txt t)]

def cookieJson (c : SetCookie) : Json := Json.mkObj [
  ("name", txt c.name), ("value", txt c.value), ("domain", optTxt c.domain), ("path", optTxt c.path),
  ("max_age", optN c.maxAge),
  ("expires", Json.str (match c.expires with | .absent => "absent" | .past => "past" | .relative => "relative")),
  ("secure", toJson c.secure), ("http_only", toJson c.httpOnly), ("samesite", optTxt c.samesite)]

def resultJson : OpResult → Json
  | .identity (.error e) => Json.mkObj [("r", "raised"), ("err", Json.str (errName e))]
  | .identity (.ok none) => Json.mkObj [("r", "none")]
  | .identity (.ok (some i)) => Json.mkObj [("r", "id"), ("ts", Json.str (toString i.ts)), ("uid", uidJson i.userid),
      ("tokens", Json.arr (i.tokens.map txt).toArray), ("userdata", txt i.userData)]
  | .headers (.error e) => Json.mkObj [("r", "raised"), ("err", Json.str (errName e))]
  | .headers (.ok cs) => Json.mkObj [("r", "headers"), ("cookies", Json.arr (cs.map cookieJson).toArray)]

/-- the first-hash input the model computes for an op (for the correspondence of hash inputs) -/
def dinOf (env : Env) (cfg : Cfg) (req : Req) : Op → Option Bytes
  | .identify =>
    match req.cookie with
    | none => none
    | some c =>
      match parseFields env.U (env.H.size * 2) c with
      | none => none
      | some (_, p) =>
        match ipTimestamp env.U (remoteAddr cfg req) p.ts with
        | .ok ipts => some (digestInput ipts (utf8Enc cfg.secret) p.userid p.tokens p.userData)
        | .error _ => none
  | .remember u _ toks =>
    match checkTokens toks with
    | .error _ => none
    | .ok ts =>
      let (tag, uid) := encodeUserid u
      match ipTimestamp env.U (remoteAddr cfg req) req.clock with
      | .ok ipts => some (digestInput ipts (utf8Enc cfg.secret) uid (List.intercalate [','] ts) (userIdTypePrefix ++ tag))
      | .error _ => none
  | .forget => none

/-- spec side of `accept_iff_digest`, printed per identify: is the digest field the MAC of the other fields? -/
def specOf (env : Env) (cfg : Cfg) (req : Req) : Op → Json
  | .identify =>
    match req.cookie with
    | none => .null
    | some c =>
      match parseFields env.U (env.H.size * 2) c with
      | none => Json.mkObj [("fields", .null)]
      | some (d, p) =>
        match ipTimestamp env.U (remoteAddr cfg req) p.ts with
        | .ok ipts =>
          let m := mac env.H (utf8Enc cfg.secret) (digestInput ipts (utf8Enc cfg.secret) p.userid p.tokens p.userData)
          Json.mkObj [("fields", Json.mkObj [("ts", Json.str (toString p.ts)), ("userid", txt p.userid),
                        ("tokens", txt p.tokens), ("userdata", txt p.userData)]),
                      ("digest_ok", toJson (decide (m = d)))]
        | .error _ => Json.mkObj [("fields", .null)]
  | _ => .null

/-- ticket-level case: {"ticket":{"secret","userid","ip","tokens":[s],"user_data","time":n,"hsize":n,
     "psecret","pip"}, "hash":…, "uni":…}  →  `AuthTicket(...).cookie_value()` and `parse_ticket` of that value under
(psecret, pip): {"value":s|null,"value_err":s|null,"parse":{"r":"ok",ts,userid,tokens,userdata}|{"r":"bad"}|{"r":"raised","err"}} -/
def ticketCase (j t : Json) : Except String Json := do
  let hsize : Nat ← getAs t "hsize"
  let H ← parseHash (← getField j "hash") hsize
  let U ← parseUni (← getField j "uni")
  let env : Env := ⟨H, U⟩
  let secret ← getText t "secret"
  let userid ← getText t "userid"
  let ip ← getText t "ip"
  let toks ← match (← getField t "tokens") with
    | .arr xs => xs.toList.mapM fun x => do let s : String ← fromJson? x; pure s.toList
    | _ => throw "bad tokens"
  let ud ← getText t "user_data"
  let time : Nat ← getAs t "time"
  let psecret ← getText t "psecret"
  let pip ← getText t "pip"
  match cookieValue env secret userid ip toks ud time with
  | .error e => return Json.mkObj [("value", .null), ("value_err", Json.str (errName e)), ("parse", .null)]
  | .ok v =>
    let pr : Json := match parseTicket env psecret v pip with
      | .error e => Json.mkObj [("r", "raised"), ("err", Json.str (errName e))]
      | .ok none => Json.mkObj [("r", "bad")]
      | .ok (some p) => Json.mkObj [("r", "ok"), ("ts", Json.str (toString p.ts)), ("userid", txt p.userid),
          ("tokens", Json.arr ((splitAll ',' p.tokens).map txt).toArray), ("userdata", txt p.userData)]
    return Json.mkObj [("value", txt v), ("value_err", .null), ("parse", pr)]

def main : IO Unit := jsonDriver fun j => do
  match j.getObjVal? "ticket" with
  | .ok t => ticketCase j t
  | .error _ =>
    let (cfg, hsize) ← parseCfg (← getField j "cfg")
    let req ← parseReq (← getField j "req")
    let ops ← match (← getField j "ops") with
      | .arr xs => xs.toList.mapM parseOp
      | _ => throw "bad ops"
    let H ← parseHash (← getField j "hash") hsize
    let U ← parseUni (← getField j "uni")
    let env : Env := ⟨H, U⟩
    let (rs, st) := runOps env cfg req {} ops
    return Json.mkObj [
      ("results", Json.arr (rs.map resultJson).toArray),
      ("response", Json.arr ((finish st).map cookieJson).toArray),
      ("st", Json.mkObj [("reissued", toJson st.reissued), ("revoked", toJson st.revoked)]),
      ("dins", Json.arr ((ops.map (dinOf env cfg req)).map fun | some b => Json.str (hexStr b) | none => .null).toArray),
      ("spec", Json.arr (ops.map (specOf env cfg req)).toArray)]
