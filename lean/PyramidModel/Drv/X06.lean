-- stub driver, replaced by the builder of X06
def main : IO Unit := pure ()
