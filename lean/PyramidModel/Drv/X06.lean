import PyramidModel.Prelude
import PyramidModel.Rx
import PyramidModel.Predicates
/-! Driver for X06: one JSON case per line.  Text t = list of code points.
ENV  {"ucd":{"word":t,"digit":t,"space":t}, "rx":[[t, RX],…], "fns":[FN,…]}
     RX = the wire form of C01/C06 (["chr",c] ["any"] ["all"] ["eps"] ["set",neg,[ITEM…]] ["esc",k,neg] ["seq",a,b] ["alt",a,b]
          ["rep",greedy,min,max|null,body]); `re.compile(text)` = the tree whose `Rx.print` is the text, else re.error
     FN = ["const",bool] | ["method",t] | ["xhr"] | ["hasmatch",t]
VAL  {"b":bool} | {"one":t} | {"many":[t…]} | {"tag":n,"str":t} | {"cust":{"hash":int,"text":t,"fn":n}}
     | {"auth":true|false|null|{"i":int}} | {"pat":[["lit",t]|["ph",t],…]}
NODE {"name":["absent"]|["none"]|["text",t],"tags":[n…]}      DICT [[t,["s",t]|["t",[t…]]],…]
CTX  {"lineage":[NODE…],"has_traverse":bool,"match":DICT}
REQ  {"method":t,"upath":t,"get":[[t,t]…],"post":[[t,t]…],"environ":[[t,t]…],"accept":null|[[t,t,n]…],"context":null|[NODE…],
      "ifaces":[n…],"matchdict":null|DICT,"is_auth":bool,"principals":[t…]}
in : {"op":"parse","p":t}                              out {"k":t,"v":null|t}
     {"op":"sorted","v":[t…]}                          out {"sorted":[t…]}
     {"op":"pred","env":ENV,"f":name,"val":VAL,"not":n,"ctx":CTX,"req":REQ}
          out {"err":E} | {"text":t,"phash":t,"call":{"ok":[bool,CTX]}|{"err":E}}
     {"op":"make","env":ENV,"ordered":[[t,name]…],"kw":[[t, null | {"v":VAL,"not":bool} | {"seq":[{"v":VAL,"not":bool}…]}]…],
      "ctx":CTX,"req":REQ}
          out {"err":E} | {"order":int,"pre":t,"texts":[t…],"phashes":[t…],"eval":{"ok":[bool,CTX,called,[fn…]]}|{"err":E}}
E = "ConfigurationError" | "ValueError" | "KeyError" | "AttributeError" | "UnicodeEncodeError" | "outside:…" -/
open Pyr Pyr.Rx Pyr.Pred Lean

namespace DrvX06

def textOf (j : Json) : Except String Text := do
  let cs : List Nat ← fromJson? j
  pure (cs.map Char.ofNat)

def jText (t : Text) : Json := toJson (t.map Char.toNat)

def arrOf (j : Json) : Except String (List Json) :=
  match j with
  | .arr xs => pure xs.toList
  | _ => throw "expected a list"

def textsOf (j : Json) : Except String (List Text) := do (← arrOf j).mapM textOf

def jChar (j : Json) : Except String Char := do
  let n : Nat ← fromJson? j
  pure (Char.ofNat n)

def jEsc (j : Json) : Except String Esc :=
  match j with
  | .str "d" => pure .d
  | .str "w" => pure .w
  | .str "s" => pure .s
  | _ => throw "bad esc"

def jItem (j : Json) : Except String CItem :=
  match j with
  | .arr #[.str "c", c] => do pure (.ch (← jChar c))
  | .arr #[.str "r", a, b] => do pure (.range (← jChar a) (← jChar b))
  | .arr #[.str "e", k] => do pure (.esc (← jEsc k))
  | _ => throw "bad class item"

def jBool (j : Json) : Except String Bool := fromJson? j

partial def jRx (j : Json) : Except String Rx :=
  match j with
  | .arr #[.str "eps"] => pure .eps
  | .arr #[.str "any"] => pure .any
  | .arr #[.str "all"] => pure .all
  | .arr #[.str "chr", c] => do pure (.chr (← jChar c))
  | .arr #[.str "set", n, .arr items] => do pure (.set (← jBool n) (← items.toList.mapM jItem))
  | .arr #[.str "esc", k, n] => do pure (.esc (← jEsc k) (← jBool n))
  | .arr #[.str "seq", a, b] => do pure (.seq (← jRx a) (← jRx b))
  | .arr #[.str "alt", a, b] => do pure (.alt (← jRx a) (← jRx b))
  | .arr #[.str "rep", g, m, n, r] => do
    let mx : Option Nat ← (match n with | .null => pure none | n => do let k : Nat ← fromJson? n; pure (some k))
    let mn : Nat ← fromJson? m
    pure (.rep (← jBool g) mn mx (← jRx r))
  | _ => throw "bad rx"

def pairOf (j : Json) : Except String (Text × Text) :=
  match j with
  | .arr #[a, b] => do pure (← textOf a, ← textOf b)
  | _ => throw "bad pair"

def pairsOf (j : Json) : Except String (List (Text × Text)) := do (← arrOf j).mapM pairOf

def mvalOf (j : Json) : Except String MVal :=
  match j with
  | .arr #[.str "s", t] => do pure (.str (← textOf t))
  | .arr #[.str "t", ts] => do pure (.segs (← textsOf ts))
  | _ => throw "bad matchdict value"

def dictOf (j : Json) : Except String Dict := do
  (← arrOf j).mapM fun e =>
    match e with
    | .arr #[k, v] => do pure (← textOf k, ← mvalOf v)
    | _ => throw "bad dict item"

def nodeOf (j : Json) : Except String Node := do
  let tags : List Nat ← getAs j "tags"
  let name ← match (← getField j "name") with
    | .arr #[.str "absent"] => pure NameAttr.absent
    | .arr #[.str "none"] => pure NameAttr.none
    | .arr #[.str "text", t] => do pure (NameAttr.text (← textOf t))
    | _ => throw "bad name"
  pure ⟨name, tags⟩

def nodesOf (j : Json) : Except String (List Node) := do (← arrOf j).mapM nodeOf

def ctxOf (j : Json) : Except String Ctx := do
  pure ⟨← nodesOf (← getField j "lineage"), ← getAs j "has_traverse", ← dictOf (← getField j "match")⟩

def rangeOf (j : Json) : Except String Range :=
  match j with
  | .arr #[a, b, q] => do
    let n : Nat ← fromJson? q
    pure ⟨← textOf a, ← textOf b, n⟩
  | _ => throw "bad range"

def reqOf (j : Json) : Except String Req := do
  let accept ← match (← getField j "accept") with
    | .null => pure none
    | a => do pure (some (← (← arrOf a).mapM rangeOf))
  let context ← match (← getField j "context") with
    | .null => pure none
    | a => do pure (some (← nodesOf a))
  let matchdict ← match (← getField j "matchdict") with
    | .null => pure none
    | a => do pure (some (← dictOf a))
  let ifaces : List Nat ← getAs j "ifaces"
  pure { method := ← textOf (← getField j "method"), upath := ← textOf (← getField j "upath"),
         get := ← pairsOf (← getField j "get"), post := ← pairsOf (← getField j "post"),
         environ := ← pairsOf (← getField j "environ"), accept, context, ifaces, matchdict,
         isAuth := ← getAs j "is_auth", principals := ← textsOf (← getField j "principals") }

def fnOf (j : Json) : Except String (Ctx → Req → Bool) :=
  match j with
  | .arr #[.str "const", b] => do let v ← jBool b; pure fun _ _ => v
  | .arr #[.str "method", t] => do let m ← textOf t; pure fun _ r => r.method == m
  | .arr #[.str "xhr"] => pure fun _ r => isXhr r
  | .arr #[.str "hasmatch", t] => do let k ← textOf t; pure fun c _ => (dictGet c.match_ k).isSome
  | _ => throw "bad fn"

def envOf (j : Json) : Except String Env := do
  let uj ← getField j "ucd"
  let u : Ucd := ⟨← textOf (← getField uj "word"), ← textOf (← getField uj "digit"), ← textOf (← getField uj "space")⟩
  let rxs ← (← arrOf (← getField j "rx")).mapM fun e =>
    match e with
    | .arr #[t, r] => do
      let txt ← textOf t
      let rx ← jRx r
      if Rx.print rx ≠ txt then throw "rx: the printed tree is not the text"
      if !Rx.ok rx then throw "rx: outside the fragment"
      pure (txt, rx)
    | _ => throw "bad rx entry"
  let fns ← (← arrOf (← getField j "fns")).mapM fnOf
  pure { re := fun t => (rxs.find? (·.1 == t)).map (·.2), ucd := u,
         fns := fun i c r => match fns[i]? with | some f => f c r | none => false }

def tokOf (j : Json) : Except String TTok :=
  match j with
  | .arr #[.str "lit", t] => do pure (.lit (← textOf t))
  | .arr #[.str "ph", t] => do pure (.ph (← textOf t))
  | _ => throw "bad traverse token"

def valOf (j : Json) : Except String Val := do
  if let .ok b := j.getObjVal? "b" then return .bool (← jBool b)
  if let .ok t := j.getObjVal? "one" then return .txt (.one (← textOf t))
  if let .ok ts := j.getObjVal? "many" then return .txt (.many (← textsOf ts))
  if let .ok n := j.getObjVal? "tag" then
    let k : Nat ← fromJson? n
    return .tag k (← textOf (← getField j "str"))
  if let .ok c := j.getObjVal? "cust" then
    let h : Int ← getAs c "hash"
    let f : Nat ← getAs c "fn"
    return .cust ⟨h, ← textOf (← getField c "text"), f⟩
  if let .ok a := j.getObjVal? "auth" then
    match a with
    | .null => return .auth .none
    | .bool b => return .auth (.bool b)
    | o => do
      let i : Int ← getAs o "i"
      return .auth (.int i)
  if let .ok p := j.getObjVal? "pat" then return .pat (← (← arrOf p).mapM tokOf)
  throw "bad value"

def factoryOf (s : String) : Except String Factory :=
  match s with
  | "xhr" => pure .xhr | "request_method" => pure .method | "path_info" => pure .pathInfo
  | "request_param" => pure .reqParam | "header" => pure .header | "accept" => pure .accept
  | "containment" => pure .containment | "request_type" => pure .reqType | "match_param" => pure .matchParam
  | "custom" => pure .custom | "traverse" => pure .traverse | "physical_path" => pure .physPath
  | "is_authenticated" => pure .isAuth | "effective_principals" => pure .effPrin
  | _ => throw s!"unknown factory {s}"

def errJson : Err → Json
  | .configError => "ConfigurationError"
  | .valueError => "ValueError"
  | .keyError => "KeyError"
  | .attributeError => "AttributeError"
  | .unicodeEncode => "UnicodeEncodeError"
  | .outside w => Json.str ("outside:" ++ String.ofList w)

def jMVal : MVal → Json
  | .str t => Json.arr #["s", jText t]
  | .segs ts => Json.arr #["t", Json.arr (ts.map jText).toArray]

def jDict (d : Dict) : Json := Json.arr (d.map fun (k, v) => Json.arr #[jText k, jMVal v]).toArray

def jNode (n : Node) : Json :=
  Json.mkObj [("name", match n.name with
                | .absent => Json.arr #["absent"] | .none => Json.arr #["none"] | .text t => Json.arr #["text", jText t]),
              ("tags", toJson n.tags)]

def jCtx (c : Ctx) : Json :=
  Json.mkObj [("lineage", Json.arr (c.lineage.map jNode).toArray), ("has_traverse", toJson c.hasTraverse), ("match", jDict c.match_)]

def custFn : Pred → Option Nat
  | .custom c => some c.fn
  | .notted p => custFn p
  | _ => none

def kwValOf (j : Json) : Except String KwVal := do
  let one (e : Json) : Except String (Bool × Val) := do
    pure (← getAs e "not", ← valOf (← getField e "v"))
  match j with
  | .null => pure none
  | o =>
    match o.getObjVal? "seq" with
    | .ok s => do pure (some (← (← arrOf s).mapM one))
    | .error _ => do pure (some [← one o])

def main : IO Unit := jsonDriver fun j => do
  let op : String ← getAs j "op"
  match op with
  | "parse" =>
    let (k, v) := parseParam (← textOf (← getField j "p"))
    pure (Json.mkObj [("k", jText k), ("v", match v with | none => Json.null | some t => jText t)])
  | "sorted" =>
    pure (Json.mkObj [("sorted", Json.arr ((sortT (← textsOf (← getField j "v"))).map jText).toArray)])
  | "pred" =>
    let E ← envOf (← getField j "env")
    let f ← factoryOf (← getAs j "f")
    let v ← valOf (← getField j "val")
    let k : Nat ← getAs j "not"
    let c ← ctxOf (← getField j "ctx")
    let r ← reqOf (← getField j "req")
    match construct E f v with
    | .error e => pure (Json.mkObj [("err", errJson e)])
    | .ok p0 =>
      let p := nest k p0
      let res := match call E p c r with
        | .error e => Json.mkObj [("err", errJson e)]
        | .ok (b, c') => Json.mkObj [("ok", Json.arr #[toJson b, jCtx c'])]
      pure (Json.mkObj [("text", jText (text p)), ("phash", jText (phash p)), ("call", res)])
  | "make" =>
    let E ← envOf (← getField j "env")
    let ordered ← (← arrOf (← getField j "ordered")).mapM fun e =>
      match e with
      | .arr #[n, .str f] => do pure (← textOf n, ← factoryOf f)
      | _ => throw "bad ordered entry"
    let kw ← (← arrOf (← getField j "kw")).mapM fun e =>
      match e with
      | .arr #[n, v] => do pure (← textOf n, ← kwValOf v)
      | _ => throw "bad kw entry"
    let c ← ctxOf (← getField j "ctx")
    let r ← reqOf (← getField j "req")
    match make E ordered kw with
    | .error e => pure (Json.mkObj [("err", errJson e)])
    | .ok m =>
      let res := match evalAll E m.preds c r with
        | .error e => Json.mkObj [("err", errJson e)]
        | .ok (b, c', n) => Json.mkObj [("ok", Json.arr #[toJson b, jCtx c', toJson n, toJson ((m.preds.take n).filterMap custFn)])]
      pure (Json.mkObj [("order", toJson m.order), ("pre", jText m.pre),
                        ("texts", Json.arr (m.preds.map (jText ∘ text)).toArray),
                        ("phashes", Json.arr (m.preds.map (jText ∘ phash)).toArray), ("eval", res)])
  | _ => throw s!"unknown op {op}"

end DrvX06

def main : IO Unit := DrvX06.main
