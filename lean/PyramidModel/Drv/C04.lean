import PyramidModel.Prelude
import PyramidModel.ActionsSpec
import PyramidModel.ActionsConfig
/-! Driver for C04: one JSON case per line.
in : {"top":[node,…]}   node = {"id":n,"disc":null|n|{"dep":k,"a":null|n,"b":null|n},"order":i,"path":[n,…],"adds":[node,…]}
out: {"out":"ok"|"conflict"|"regress"|"fuel","keys":[sorted…],"regress":null|[order,min_order],
      "log":[ids in execution order],"discs":[[id,key|null] of the executed actions],"wf":ids distinct,
      "spec":null | {"out","keys","log"}   (the declarative phase spec; only for programs without adds and thunks)}
in : {"prog":[stmt,…],"autocommit":bool}   stmt = {"op":"declare","id":n,"disc":…,"order":i,"body":[stmt,…]}
       | {"op":"include","spec":n,"rp":null|n,"body":[stmt,…]} | {"op":"commit"}
out: {"commits":[{"out","keys","regress","log","discs"}],"pending":[[id,path]],"declared":[[id,path,route_prefix]],
      "bad":bool,"aborted":bool}   or, with autocommit, {"log","discs","declared"} -/
open Pyr Pyr.Actions Lean

structure Node where
  act : Act
  adds : List Act

def parseNodes : Nat → Json → Except String (List Act × List Node)
  | 0, _ => throw "nesting too deep"
  | depth + 1, j => do
  match j with
  | .arr xs =>
    let mut acts : List Act := []
    let mut nodes : List Node := []
    for x in xs.toList do
      let id : Nat ← getAs x "id"
      let order : Int ← getAs x "order"
      let path : List Nat ← getAs x "path"
      let dj ← getField x "disc"
      let disc ← match dj with
        | .null => pure Disc.none
        | .obj _ => do
          let dep : Nat ← getAs dj "dep"
          let a : Option Nat ← getAs dj "a"
          let b : Option Nat ← getAs dj "b"
          pure (Disc.deferred dep a b)
        | v => do
          let n : Nat ← fromJson? v
          pure (Disc.val n)
      let aj ← getField x "adds"
      let (kacts, knodes) ← parseNodes depth aj
      let a : Act := ⟨id, disc, order, path⟩
      acts := acts ++ [a]
      nodes := nodes ++ [⟨a, kacts⟩] ++ knodes
    pure (acts, nodes)
  | _ => throw "bad node list"

def sortNat (l : List Nat) : List Nat := (l.toArray.qsort (· < ·)).toList

def outcomeJson (o : Outcome) : List (String × Json) :=
  match o with
  | .ok => [("out", "ok"), ("keys", toJson ([] : List Nat)), ("regress", Json.null)]
  | .conflict ks => [("out", "conflict"), ("keys", toJson (sortNat ks.eraseDups)), ("regress", Json.null)]
  | .regress a b => [("out", "regress"), ("keys", toJson ([] : List Nat)), ("regress", toJson [a, b])]
  | .fuel => [("out", "fuel"), ("keys", toJson ([] : List Nat)), ("regress", Json.null)]

def parseDisc (dj : Json) : Except String Disc :=
  match dj with
  | .null => pure Disc.none
  | .obj _ => do
    let dep : Nat ← getAs dj "dep"
    let a : Option Nat ← getAs dj "a"
    let b : Option Nat ← getAs dj "b"
    pure (Disc.deferred dep a b)
  | v => do
    let n : Nat ← fromJson? v
    pure (Disc.val n)

def parseStmts : Nat → Json → Except String Stmts
  | 0, _ => throw "nesting too deep"
  | depth + 1, j => do
  match j with
  | .arr xs =>
    let mut out : List Stmt := []
    for x in xs.toList do
      let op : String ← getAs x "op"
      if op == "declare" then
        let id : Nat ← getAs x "id"
        let order : Int ← getAs x "order"
        let disc ← parseDisc (← getField x "disc")
        let body ← parseStmts depth (← getField x "body")
        out := out ++ [Stmt.declare id disc order body]
      else if op == "include" then
        let spec : Nat ← getAs x "spec"
        let rp : Option Nat ← getAs x "rp"
        let body ← parseStmts depth (← getField x "body")
        out := out ++ [Stmt.include spec rp body]
      else if op == "commit" then
        out := out ++ [Stmt.commit]
      else throw "bad op"
    pure (out.foldr Stmts.cons Stmts.nil)
  | _ => throw "bad statement list"

def seenJson (l : List Seen) : Json := Json.arr (l.map fun d => Json.arr #[toJson d.id, toJson d.path, toJson d.rprefix]).toArray

def progMain (j : Json) : Except String Json := do
  let p ← parseStmts 64 (← getField j "prog")
  let auto : Bool ← getAs j "autocommit"
  if auto then
    let w := autoStmts {} p {}
    return Json.mkObj [("log", toJson w.log), ("discs", toJson (w.discs.map fun d => (toJson d.1, toJson d.2))),
      ("declared", seenJson w.declared)]
  else
    let w := runProgram p
    let commits := w.commits.map fun r =>
      Json.mkObj (outcomeJson r.outcome ++ [("log", toJson (r.log.map (·.id))),
        ("discs", toJson (r.log.map fun a => (toJson a.id, toJson a.key)))])
    return Json.mkObj [("commits", toJson commits),
      ("pending", toJson (w.core.actions.map fun a => (toJson a.id, toJson a.path))),
      ("declared", seenJson w.core.declared), ("bad", toJson w.core.bad), ("aborted", toJson w.aborted)]

def main : IO Unit := jsonDriver fun j => do
  if let .ok _ := getField j "prog" then return (← progMain j)
  let tj ← getField j "top"
  let (top, nodes) ← parseNodes 64 tj
  let kids : Nat → List Act := fun i =>
    match nodes.find? (fun n => n.act.id == i) with
    | some n => n.adds
    | none => []
  let ids := nodes.map (·.act.id)
  let wf := ids.eraseDups.length == ids.length
  let fuel := nodes.length + 1
  let r := exec kids fuel (initSt top)
  let log := r.2.log.reverse
  let static := nodes.all (fun n => n.adds.isEmpty && n.act.disc.isPlain)
  let spec : Json :=
    if static then
      let s := specRun top
      Json.mkObj (outcomeJson s.1 ++ [("log", toJson s.2)])
    else Json.null
  return Json.mkObj (outcomeJson r.1 ++ [
    ("log", toJson (log.map (·.id))),
    ("discs", toJson (log.map fun a => (toJson a.id, toJson a.key))),
    ("wf", toJson wf),
    ("spec", spec)])
