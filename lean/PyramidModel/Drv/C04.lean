-- driver stub for C04 (replaced when the model is built)
def main : IO Unit := pure ()
