import PyramidModel.Prelude
import PyramidModel.ViewLookupSpec
import PyramidModel.ViewLookupJson
/-! Driver for C03: one JSON case per line (see `harness/c03.py: encode_case`).
in : {"regs":[reg…], "req":request, "cls":0|1}
out: {"out":[kind,tag?], "spec":[kind,tag?], "derived":[[order,phashText,npreds],…], "coherent":b,
      "cands":[tag…], "asked":[tag…]}      asked = views whose predicates the lookup evaluates, in order -/
open Pyr Pyr.ViewLookup Lean

open Pyr.ViewLookup.Drv in
def main : IO Unit := jsonDriver fun j => do
  let regs ← (← (← j.getObjVal? "regs").getArr?).toList.mapM parseReg
  let req ← parseReq (← j.getObjVal? "req")
  let cls ← (← j.getObjVal? "cls").getNat?
  let out := callView (registerAll regs) cls req
  let spec := expectedView regs cls req
  let derived := regs.map fun r =>
    let d := derive r
    Json.arr #[toJson d.order, toJson d.phash, toJson d.preds.length, toJson (d.holds req)]
  return Json.mkObj [
    ("out", outJson out), ("spec", outJson spec), ("derived", Json.arr derived.toArray),
    ("coherent", toJson (coherentB regs)),
    ("cands", toJson ((candidates regs cls req).map (·.tag))),
    ("asked", toJson (callViewAsked (registerAll regs) cls req))]
