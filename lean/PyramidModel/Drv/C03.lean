-- driver stub for C03 (replaced when the model is built)
def main : IO Unit := pure ()
