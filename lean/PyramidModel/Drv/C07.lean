import PyramidModel.Prelude
import PyramidModel.Lemmas.ResourceUrlSpec
/-! Driver for C07: one JSON case per line.  Text = list of code points, WSGI strings / bytes = list of 0..255.

in : {"op":"res","tree":T,"pos":[text…],"anc":n,"vroot":[b…]|null,"els":[text…],"app":text,"script":text}
       T = {"g":bool,"k":[[name,T],…]}
     {"op":"find","tree":T,"start":[text…],"path":{"s":text}|{"t":[text…]}}
     {"op":"quote","seg":text}
out: res   → {"err":"unicodedecode"} when the header is not UTF-8 (ResourceURL raises), else every observable of the resource at `pos` (paths, lookups, ResourceURL, URL, virtual_root, the
             generated URL requested back) + "spec" (what the property demands, Lemmas/ResourceUrlSpec.lean)
     find  → {"ok":position} | {"err":…}
     quote → {"q":text,"back":text|null}     (quote_path_segment, and percent-decode + UTF-8 decode of it) -/
open Pyr Pyr.Trav Pyr.ResUrl Lean

namespace DrvC07

def textOf (j : Json) : Except String Text := do
  let cs : List Nat ← fromJson? j
  pure (cs.map Char.ofNat)

def bytesOf (j : Json) : Except String Bytes := do
  let cs : List Nat ← fromJson? j
  pure (cs.map UInt8.ofNat)

def textsOf (j : Json) : Except String (List Text) :=
  match j with
  | .arr xs => xs.toList.mapM textOf
  | _ => throw "expected a list of texts"

def jText (t : Text) : Json := toJson (t.map Char.toNat)
def jTexts (ts : List Text) : Json := Json.arr (ts.map jText).toArray

partial def parseTree (j : Json) : Except String Tree := do
  let g : Bool ← getAs j "g"
  let kj ← getField j "k"
  match kj with
  | .arr xs =>
    let kids ← xs.toList.mapM fun p =>
      match p with
      | .arr #[n, t] => do
        let name ← textOf n
        let sub ← parseTree t
        pure (name, sub)
      | _ => throw "bad child"
    pure (Tree.mk g kids)
  | _ => throw "bad kids"

def parseSoT (j : Json) : Except String StrOrTuple :=
  match j.getObjVal? "s" with
  | .ok s => do pure (.str (← textOf s))
  | .error _ => do
    let t ← getField j "t"
    pure (.tup (← textsOf t))

def optBytes (j : Json) (k : String) : Except String (Option Bytes) :=
  match j.getObjVal? k with
  | .ok .null => pure none
  | .ok v => do pure (some (← bytesOf v))
  | .error _ => pure none

def errName : Err → String
  | .urlDecode => "urldecode"
  | .unicodeDecode => "unicodedecode"
  | .unicodeEncode => "unicodeencode"
  | .keyError => "keyerror"
  | .outsideModel => "outside"
  | .badStart => "badstart"

def jResult (r : Result) : Json := Json.mkObj [
  ("context", jTexts r.context), ("view_name", jText r.viewName), ("subpath", jTexts r.subpath),
  ("traversed", jTexts r.traversed), ("virtual_root", jTexts r.virtualRoot),
  ("virtual_root_path", jTexts r.virtualRootPath)]

def jOut {α} (f : α → Json) : Except Err α → Json
  | .ok a => Json.mkObj [("ok", f a)]
  | .error e => Json.mkObj [("err", Json.str (errName e))]

def jOpt {α} (f : α → Json) : Option α → Json
  | some a => f a
  | none => Json.null

def handle (j : Json) : Except String Json := do
  let op : String ← getAs j "op"
  match op with
  | "res" =>
    let tree ← parseTree (← getField j "tree")
    let pos ← textsOf (← getField j "pos")
    let anc : Nat ← getAs j "anc"
    let vroot ← optBytes j "vroot"
    let els ← textsOf (← getField j "els")
    let app ← textOf (← getField j "app")
    let script ← textOf (← getField j "script")
    let a := pos.take anc
    let q := pos.drop anc
    let relStr : Text := if q = [] then [] else joinPathTuple q
    let vt : Option (List Seg) := vroot.bind headerVroot
    match resourceURL pos vroot, resourceUrl app pos vroot els, resourceUrl script pos vroot els, resourceUrl [] pos vroot [] with
    | .ok u, .ok url, .ok rpath, .ok url0 =>
      pure (Json.mkObj [
        ("rpt", jTexts (resourcePathTuple pos els)),
        ("rp", jText (resourcePath pos els)),
        ("fas", jOut jTexts (findResource tree a (.str (resourcePath pos [])))),
        ("fat", jOut jTexts (findResource tree a (.tup (resourcePathTuple pos [])))),
        ("frs", jOut jTexts (findResource tree a (.str relStr))),
        ("frt", jOut jTexts (findResource tree a (.tup q))),
        ("phys", jText u.physicalPath), ("virt", jText u.virtualPath),
        ("physt", jTexts u.physicalPathTuple), ("virtt", jTexts u.virtualPathTuple),
        ("url", jText url),
        ("rpath", jText rpath),
        ("vr", jOut jTexts (virtualRoot tree pos vroot)),
        ("back", jOut jResult (requestBack tree url0 vroot)),
        ("spec", Json.mkObj [
          ("vt", jOpt jTexts vt),
          ("virt", jText (specVirtualPath pos vt)),
          ("url", jText (specUrl app pos vt els)),
          ("inside", jOpt (fun v => Json.bool (inside v pos)) vt)])])
    | .error e, _, _, _ => pure (Json.mkObj [("err", Json.str (errName e))])
    | _, _, _, _ => throw "resourceUrl fails where resourceURL does not"
  | "find" =>
    let tree ← parseTree (← getField j "tree")
    let start ← textsOf (← getField j "start")
    let path ← parseSoT (← getField j "path")
    pure (jOut jTexts (findResource tree start path))
  | "quote" =>
    let s ← textOf (← getField j "seg")
    let q := quoteSegment s
    let back : Option Text := (asciiEncode q).bind fun b => utf8Dec (unquoteToBytes b)
    pure (Json.mkObj [("q", jText q), ("back", jOpt jText back)])
  | _ => throw s!"unknown op {op}"

end DrvC07

def main : IO Unit := jsonDriver DrvC07.handle
