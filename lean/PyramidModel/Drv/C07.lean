-- driver stub for C07 (replaced when the model is built)
def main : IO Unit := pure ()
