-- stub driver, replaced by the builder of X08
def main : IO Unit := pure ()
