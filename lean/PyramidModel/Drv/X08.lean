import PyramidModel.Prelude
import PyramidModel.Prefix
/-! Driver for X08: one JSON case per line.  Text t = list of code points; OT = null | t.
in : {"op":"tree","top":OT,"body":[S,…]}      a configuration program run on Configurator(route_prefix=top)
       S = {"k":"route","n":t,"p":t,"inh":bool,"st":bool} | {"k":"static","n":t} | {"k":"ctx","p":OT,"b":[S,…]}
         | {"k":"inc","p":OT,"b":[S,…]} | {"k":"try","b":[S,…]} | {"k":"raise"} | {"k":"probe"}
     {"op":"fn","a":OT,"b":OT,"c":OT,"pat":t,"inh":bool}     the pure functions
     {"op":"url","t":t}                                      urlparse
out: tree {"routes":[[name,pattern],…],"statics":[[name,pattern],…],"regs":[[OT url,OT route_name],…],
           "probes":[OT,…],"final":OT,"raised": null | "inheritSlash" | "boom",
           "spec": bool (the lexical-scoping reading gives the same state and outcome)}
     fn   {"ab":OT,"abc":OT,"abc2":OT,"apply":A,"nested":A,"eff":t}    A = {"err":e} | {"ok":[pattern, static]}  (add_route under a / (a∘b)∘c)
     url  {"netloc":t,"host":t,"path":t,"safe":bool} -/
open Pyr Pyr.Prefix Lean

namespace DrvX08

def textOf (j : Json) : Except String Text := do
  let cs : List Nat ← fromJson? j
  if cs.all Nat.isValidChar then pure (cs.map Char.ofNat) else throw "not a scalar value"

def optTextOf (j : Json) : Except String (Option Text) :=
  match j with
  | .null => pure none
  | _ => some <$> textOf j

def jText (t : Text) : Json := toJson (t.map Char.toNat)

def jOptText : Option Text → Json
  | none => Json.null
  | some t => jText t

def arrOf (j : Json) : Except String (List Json) :=
  match j with
  | .arr xs => pure xs.toList
  | _ => throw "expected a list"

partial def stmtOf (j : Json) : Except String Stmt := do
  let k : String ← getAs j "k"
  match k with
  | "route" =>
    pure (.route (← textOf (← getField j "n")) (← textOf (← getField j "p")) (← getAs j "inh") (← getAs j "st"))
  | "static" => pure (.static (← textOf (← getField j "n")))
  | "ctx" => pure (.ctx (← optTextOf (← getField j "p")) (← (← arrOf (← getField j "b")).mapM stmtOf))
  | "inc" => pure (.inc (← optTextOf (← getField j "p")) (← (← arrOf (← getField j "b")).mapM stmtOf))
  | "try" => pure (.try_ (← (← arrOf (← getField j "b")).mapM stmtOf))
  | "raise" => pure .raise
  | "probe" => pure .probe
  | _ => throw s!"unknown statement {k}"

def jRegs (rs : List Reg) : Json := Json.arr (rs.map fun r => Json.arr #[jText r.name, jText r.pattern]).toArray

def jErr : Option Err → Json
  | none => Json.null
  | some .inheritSlash => "inheritSlash"
  | some .boom => "boom"

def jAdd : Except Err (Text × Bool) → Json
  | .error e => Json.mkObj [("err", jErr (some e))]
  | .ok (p, s) => Json.mkObj [("ok", Json.arr #[jText p, s])]

def run (j : Json) : Except String Json := do
  let op : String ← getAs j "op"
  match op with
  | "tree" =>
    let top ← optTextOf (← getField j "top")
    let body ← (← arrOf (← getField j "body")).mapM stmtOf
    let r := execL top {} body
    let tr := traceL (leafFails top) [] body
    let st := r.2.1
    let specOk : Bool := decide (replay top {} tr.1 = st) && (tr.2 == r.2.2.isSome)
    pure (Json.mkObj [("routes", jRegs st.routelist), ("statics", jRegs st.statics),
      ("regs", Json.arr (st.regs.map fun x => Json.arr #[jOptText x.1, jOptText x.2]).toArray),
      ("probes", Json.arr (st.probes.map jOptText).toArray), ("final", jOptText r.1), ("raised", jErr r.2.2),
      ("spec", specOk)])
  | "fn" =>
    let a ← optTextOf (← getField j "a")
    let b ← optTextOf (← getField j "b")
    let c ← optTextOf (← getField j "c")
    let pat ← textOf (← getField j "pat")
    let inh : Bool ← getAs j "inh"
    pure (Json.mkObj [("ab", jOptText (combine a b)), ("abc", jOptText (combine (combine a b) c)),
      ("abc2", jOptText (combine a (combine b c))), ("apply", jAdd (addRoute a pat inh false)),
      ("nested", jAdd (addRoute (combine (combine a b) c) pat inh false)),
      ("eff", jText (effective (applyPrefix a pat inh)))])
  | "url" =>
    let t ← textOf (← getField j "t")
    pure (Json.mkObj [("netloc", jText (netlocPath t).1), ("host", jText (hostOf t)), ("path", jText (netlocPath t).2),
      ("safe", decide (UrlSafe t))])
  | _ => throw s!"unknown op {op}"

end DrvX08

def main : IO Unit := Pyr.jsonDriver DrvX08.run
