import PyramidModel.Prelude
import PyramidModel.Lemmas.Csrf
/-! Driver for C12: one JSON case per line.  Text = list of code points.

request R = {"method":t,"scheme":t,"environ":[[t,t],…],"form":[[t,t],…],"query":[[t,t],…],
             "stored":t|null,"fresh":t,"br":bool,"nfkc":bool}
defaults D = null | {"require":bool,"token":t|null,"header":t|null,"safe":[t,…],"check_origin":bool,
                     "allow_no_origin":bool,"callback":null|"true"|"false"|"put"|"noauth"}
in : {"op":"view","explicit":bool|null,"exc_only":bool,"defaults":D,"storage":"legacy"|"session"|"cookie",
      "trusted":[t,…],"req":R}
     {"op":"origin","trusted":[t,…],"allow_no_origin":bool,"raises":bool,"req":R}
     {"op":"seq","trusted":[t,…],"allow_no_origin":bool,"raises":bool,"reqs":[R,…]}
     {"op":"token","storage":…,"token":t|null,"header":t|null,"raises":bool,"req":R}
     {"op":"urlparse","origin":t,"br":bool,"nfkc":bool}
out: view    {"out":"ran"|"badtoken"|"badorigin"|"valueerror"|"unicodeerror","enabled":b,"applies":b,
              "supplied":t,"held":t,"spec":"ran"|"rejected"}
     origin  {"out":true|false|"bad…","left":[t,…],"own":t,"spec":bool}
     seq     {"outs":[…],"left":[t,…],"spec":[bool,…]}
     token   {"out":…,"supplied":t,"held":t,"spec":bool}
     urlparse{"scheme":t,"netloc":t,"bracketed":t} | {"err":"valueerror","bracketed":t} -/
open Pyr Pyr.Csrf Lean

namespace DrvC12

def textOf (j : Json) : Except String Csrf.Text := do
  let cs : List Nat ← fromJson? j
  pure (cs.map Char.ofNat)

def optText (j : Json) : Except String (Option Csrf.Text) :=
  match j with
  | .null => pure none
  | _ => do pure (some (← textOf j))

def textsOf (j : Json) : Except String (List Csrf.Text) :=
  match j with
  | .arr xs => xs.toList.mapM textOf
  | _ => throw "expected a list of texts"

def pairsOf (j : Json) : Except String (List (Csrf.Text × Csrf.Text)) :=
  match j with
  | .arr xs => xs.toList.mapM fun p =>
    match p with
    | .arr #[k, v] => do pure (← textOf k, ← textOf v)
    | _ => throw "bad pair"
  | _ => throw "expected a list of pairs"

def jText (t : Csrf.Text) : Json := toJson (t.map Char.toNat)
def jTexts (ts : List Csrf.Text) : Json := Json.arr (ts.map jText).toArray

def parseReq (j : Json) : Except String Req := do
  let method ← textOf (← getField j "method")
  let scheme ← textOf (← getField j "scheme")
  let environ ← pairsOf (← getField j "environ")
  let form ← pairsOf (← getField j "form")
  let query ← pairsOf (← getField j "query")
  let stored ← optText (← getField j "stored")
  let fresh ← textOf (← getField j "fresh")
  let br : Bool ← getAs j "br"
  let nfkc : Bool ← getAs j "nfkc"
  pure { method, scheme, environ, form, query, stored, fresh, brHostOk := br, nfkcOk := nfkc }

def parseStorage (j : Json) : Except String Storage :=
  match j with
  | .str "legacy" => pure .legacy
  | .str "session" => pure .session
  | .str "cookie" => pure .cookie
  | _ => throw "bad storage"

def parseCallback (j : Json) : Except String (Option (Req → Bool)) :=
  match j with
  | .null => pure none
  | .str "true" => pure (some fun _ => true)
  | .str "false" => pure (some fun _ => false)
  | .str "put" => pure (some fun r => r.method == s "PUT")
  | .str "noauth" => pure (some fun r => (header r (s "Authorization")).isNone)
  | _ => throw "bad callback"

def parseDefaults (j : Json) : Except String (Option Defaults) :=
  match j with
  | .null => pure none
  | _ => do
    let requireCsrf : Bool ← getAs j "require"
    let token ← optText (← getField j "token")
    let hdr ← optText (← getField j "header")
    let safeMethods ← textsOf (← getField j "safe")
    let checkOrigin : Bool ← getAs j "check_origin"
    let allowNoOrigin : Bool ← getAs j "allow_no_origin"
    let callback ← parseCallback (← getField j "callback")
    pure (some { requireCsrf, token, header := hdr, safeMethods, checkOrigin, allowNoOrigin, callback })

def jOut (e : Except Err Bool) : Json :=
  match e with
  | .ok b => toJson b
  | .error .badToken => "badtoken"
  | .error .badOrigin => "badorigin"
  | .error .valueError => "valueerror"
  | .error .unicodeError => "unicodeerror"

def jOutU (e : Except Err Unit) : Json :=
  match e with
  | .ok _ => "ran"
  | .error .badToken => "badtoken"
  | .error .badOrigin => "badorigin"
  | .error .valueError => "valueerror"
  | .error .unicodeError => "unicodeerror"

def run (j : Json) : Except String Json := do
  let op : String ← getAs j "op"
  match op with
  | "view" =>
    let explicit : Option Bool ← match (← getField j "explicit") with
      | .null => pure none
      | .bool b => pure (some b)
      | _ => throw "bad explicit"
    let exceptionOnly : Bool ← getAs j "exc_only"
    let defaults ← parseDefaults (← getField j "defaults")
    let storage ← parseStorage (← getField j "storage")
    let trustedSetting ← textsOf (← getField j "trusted")
    let r ← parseReq (← getField j "req")
    let c : ViewCfg := { explicit, exceptionOnly, defaults, storage, trustedSetting }
    let d := c.opts
    pure <| Json.mkObj [
      ("out", jOutU (csrfView c r)),
      ("enabled", toJson (csrfEnabled c)),
      ("applies", toJson (checksApply c r)),
      ("supplied", jText (suppliedToken d.token d.header r)),
      ("held", jText (heldToken storage r)),
      ("spec", if specViewRuns c r then "ran" else "rejected")]
  | "origin" =>
    let trusted ← textsOf (← getField j "trusted")
    let allowNo : Bool ← getAs j "allow_no_origin"
    let raises : Bool ← getAs j "raises"
    let r ← parseReq (← getField j "req")
    let (v, left) := checkOriginSt trusted allowNo raises r
    pure <| Json.mkObj [("out", jOut v), ("left", jTexts left), ("own", jText (ownHost r)),
      ("spec", toJson (specOriginOk trusted allowNo r))]
  | "seq" =>
    let trusted ← textsOf (← getField j "trusted")
    let allowNo : Bool ← getAs j "allow_no_origin"
    let raises : Bool ← getAs j "raises"
    let reqs ← match (← getField j "reqs") with
      | .arr xs => xs.toList.mapM parseReq
      | _ => throw "bad reqs"
    let (vs, left) := checkOriginSeq allowNo raises trusted reqs
    pure <| Json.mkObj [("outs", Json.arr (vs.map jOut).toArray), ("left", jTexts left),
      ("spec", toJson (reqs.map fun r => specOriginOk trusted allowNo r))]
  | "token" =>
    let storage ← parseStorage (← getField j "storage")
    let token ← optText (← getField j "token")
    let hdr ← optText (← getField j "header")
    let raises : Bool ← getAs j "raises"
    let r ← parseReq (← getField j "req")
    pure <| Json.mkObj [("out", jOut (checkToken storage token hdr raises r)),
      ("supplied", jText (suppliedToken token hdr r)), ("held", jText (heldToken storage r)),
      ("spec", toJson (specTokenOk storage token hdr r))]
  | "urlparse" =>
    let origin ← textOf (← getField j "origin")
    let br : Bool ← getAs j "br"
    let nfkc : Bool ← getAs j "nfkc"
    let bracketed := bracketedHost (netlocOf (splitScheme (urlClean origin)).2)
    match urlparse origin br nfkc with
    | .ok p => pure <| Json.mkObj [("scheme", jText p.scheme), ("netloc", jText p.netloc), ("bracketed", jText bracketed)]
    | .error _ => pure <| Json.mkObj [("err", "valueerror"), ("bracketed", jText bracketed)]
  | _ => throw s!"unknown op {op}"

end DrvC12

def main : IO Unit := jsonDriver DrvC12.run
