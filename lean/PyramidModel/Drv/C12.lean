-- driver stub for C12 (replaced when the model is built)
def main : IO Unit := pure ()
