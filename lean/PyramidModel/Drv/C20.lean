import PyramidModel.Prelude
import PyramidModel.Introspect
import PyramidModel.Actions
import PyramidModel.Lemmas.IntrospectSpec
/-! Driver for C20: one JSON case per line.

`{"op":"ops","seq":[op…]}` — an operation sequence on a fresh `Introspector`:
   ["add",c,d,v,info] ["get",c,d] ["peek",c,d] ["get_category",c] ["categories"] ["categorized"]
   ["remove",c,d] ["relate",[[c,d],…]] ["unrelate",[[c,d],…]] ["related",c,d]
   → {"results":[…]}: null / entry [d,v,info] / lists / {"err":"KeyError"|"ValueError"} (state unchanged)

`{"op":"commit","base":STATE,"flag":b,"forwards":b,"tree":[STMT…]}` — declare the statement tree on a
   configurator whose `introspection` is `flag`, resolve conflicts with the C04 model (`Pyr.Actions.run`, no
   action adds actions), register the introspectables of the executed actions in execution order.
   STMT = {"act":{"id":n,"disc":null|n,"order":i,"intrs":[{"obj":[c,d,v],"rels":[[rel,c,d],…]}]}}
        | {"incl":node,"set":null|b,"body":[STMT…]}
   → {"outcome":…, "executed":[ids], "pending":[[id,[path],nIntrs]…], "reg":"ok"|"KeyError"|…, "state":VIEW}
   VIEW = [[c,[[d,v,info,[[c,d,v]…]]…]]…]  (= `categorized()`)

`{"op":"history","base":STATE,"flag":b,"forwards":b,"commits":[{"tree":[STMT…],"auto":b}…]}` — several commits into the
   same introspector (the state threads through); `auto` = an autocommit configurator: every action executes at once,
   in declaration order, without conflict resolution.  → {"commits":[<as for "commit">…]} (stops after a failing one)

`{"op":"spec"}` — the specification table of Lemmas/IntrospectSpec.lean as JSON (for the dynamic oracle's
   cross-check).
-/
open Pyr Pyr.Introspect Lean

def objJ (o : Obj) : Json := toJson [o.cat, o.discr, o.val]
def entryJ (e : Entry) : Json := toJson [e.obj.discr, e.obj.val, e.info]
def errJ : Err → Json
  | .keyError => Json.mkObj [("err", "KeyError")]
  | .valueError => Json.mkObj [("err", "ValueError")]

def catViewJ (l : List (Entry × List Obj)) : Json :=
  Json.arr (l.map fun p => Json.arr #[toJson p.1.obj.discr, toJson p.1.obj.val, toJson p.1.info,
                                       Json.arr (p.2.map objJ).toArray]).toArray

def viewJ (S : IState) : Json :=
  Json.arr ((categorized S).map fun p => Json.arr #[toJson p.1, catViewJ p.2]).toArray

def natsOf (j : Json) : Except String (List Nat) := fromJson? j

def pairsOfJ (j : Json) : Except String (List (Nat × Nat)) := do
  let xs : List (List Nat) ← fromJson? j
  xs.mapM fun x => match x with
    | [c, d] => pure (c, d)
    | _ => throw "bad pair"

def runOp (S : IState) (j : Json) : Except String (IState × Json) := do
  match j with
  | .arr a =>
    let name ← match (a[0]? : Option Json) with
      | some (Json.str s) => pure s
      | _ => throw "bad op"
    let arg (i : Nat) : Except String Nat := match (a[i]? : Option Json) with
      | some v => fromJson? v
      | none => throw "missing arg"
    match name with
    | "add" => do
      let S' := add S ⟨← arg 1, ← arg 2, ← arg 3⟩ (← arg 4)
      pure (S', Json.null)
    | "get" => do
      let r := get S (← arg 1) (← arg 2)
      pure (r.2, match r.1 with | some e => entryJ e | none => Json.null)
    | "peek" => do
      pure (S, match peek S (← arg 1) (← arg 2) with | some e => entryJ e | none => Json.null)
    | "get_category" => do
      pure (S, match getCategory S (← arg 1) with | some l => catViewJ l | none => Json.null)
    | "categories" => pure (S, toJson (categories S))
    | "categorized" => pure (S, viewJ S)
    | "remove" => do
      match remove S (← arg 1) (← arg 2) with
      | .ok S' => pure (S', Json.null)
      | .error e => pure (S, errJ e)
    | "relate" | "unrelate" => do
      let ks ← match (a[1]? : Option Json) with
        | some v => pairsOfJ v
        | none => throw "missing pairs"
      match relate S (name == "relate") ks with
      | .ok S' => pure (S', Json.null)
      | .error e => pure (S, errJ e)
    | "related" => do
      match related S (← arg 1) (← arg 2) with
      | .ok l => pure (S, Json.arr (l.map objJ).toArray)
      | .error e => pure (S, errJ e)
    | _ => throw s!"unknown op {name}"
  | _ => throw "bad op"

def runOps (S : IState) : List Json → Except String (List Json)
  | [] => pure []
  | j :: r => do
    let (S', out) ← runOp S j
    let rest ← runOps S' r
    pure (out :: rest)

def parseObj (j : Json) : Except String Obj := do
  let l ← natsOf j
  match l with
  | [c, d, v] => pure ⟨c, d, v⟩
  | _ => throw "bad obj"

def parseState (j : Json) : Except String IState := do
  let cats : List (Nat × List (List Nat)) ← getAs j "cats"
  let cats' ← cats.mapM fun (c, es) => do
    let es' ← es.mapM fun e => match e with
      | [d, v, info, order] => pure (⟨⟨c, d, v⟩, info, order⟩ : Entry)
      | _ => throw "bad entry"
    pure (c, es')
  let refsJ ← getField j "refs"
  let refs ← match refsJ with
    | .arr xs => xs.toList.mapM fun x => match x with
      | .arr #[k, l] => do
        let ko ← parseObj k
        let ls ← match l with
          | .arr ys => ys.toList.mapM parseObj
          | _ => throw "bad ref list"
        pure (ko, ls)
      | _ => throw "bad ref"
    | _ => throw "bad refs"
  let counter : Nat ← getAs j "counter"
  pure { cats := cats', refs := refs, counter := counter }

def parseDecl (j : Json) : Except String Decl := do
  let o ← parseObj (← getField j "obj")
  let rs : List (List Nat) ← getAs j "rels"
  let rels ← rs.mapM fun r => match r with
    | [b, c, d] => pure (⟨b != 0, c, d⟩ : Rel)
    | _ => throw "bad rel"
  pure ⟨o, rels⟩

partial def parseStmt (j : Json) : Except String Stmt := do
  match j.getObjVal? "act" with
  | .ok a =>
    let id : Nat ← getAs a "id"
    let disc : Option Nat ← getAs a "disc"
    let order : Int ← getAs a "order"
    let ij ← getField a "intrs"
    let intrs ← match ij with
      | .arr xs => xs.toList.mapM parseDecl
      | _ => throw "bad intrs"
    pure (.act ⟨id, disc, order, intrs⟩)
  | .error _ =>
    let node : Nat ← getAs j "incl"
    let set : Option Bool ← getAs j "set"
    let bj ← getField j "body"
    let body ← match bj with
      | .arr xs => xs.toList.mapM parseStmt
      | _ => throw "bad body"
    pure (.incl node set body)

def outcomeJ : Pyr.Actions.Outcome → Json
  | .ok => "ok"
  | .conflict ks => Json.mkObj [("conflict", toJson ks)]
  | .regress o m => Json.mkObj [("regress", toJson [o, m])]
  | .fuel => "fuel"

def strsJ (l : List String) : Json := toJson l

def gdefJ (d : GDef) : Json := Json.arr #[d.name, d.rhs, d.scope, strsJ d.guards]

def shapeJ : Shape → Json
  | .param p => Json.arr #["param", p]
  | .resolved p => Json.arr #["resolved", p]
  | .const c => Json.arr #["const", c]
  | .derived e defs => Json.arr #["derived", e, Json.arr (defs.map gdefJ).toArray]
  | .computed e => Json.arr #["computed", e]
  | .extra p => Json.arr #["extra", p]

def specJ : Json :=
  Json.arr (specDirectives.map fun s => Json.mkObj [
    ("file", s.file), ("name", s.name), ("params", strsJ s.params), ("entries", strsJ s.entries),
    ("docCategory", Json.arr (s.docCategory.map fun p => Json.arr #[p.1, p.2]).toArray),
    ("intros", Json.arr (s.intros.map fun i => Json.mkObj [
      ("var", i.var), ("category", i.category), ("discr", i.discr), ("title", i.title), ("typeName", i.typeName),
      ("scope", i.scope), ("guards", strsJ i.guards)]).toArray),
    ("keys", Json.arr (s.keys.map fun k => Json.mkObj [
      ("var", k.var), ("key", k.key), ("shape", shapeJ k.shape), ("scope", k.scope), ("guards", strsJ k.guards)]).toArray),
    ("rels", Json.arr (s.rels.map fun r => Json.mkObj [
      ("var", r.var), ("rel", toJson r.rel), ("cat", r.cat), ("discr", r.discr), ("scope", r.scope), ("guards", strsJ r.guards)]).toArray),
    ("acts", Json.arr (s.acts.map fun a => Json.mkObj [
      ("discr", a.discr), ("order", a.order), ("guards", strsJ a.guards),
      ("intrs", (match a.intrs with
        | some vs => Json.arr (vs.map fun v => Json.arr #[v.1, strsJ v.2]).toArray
        | none => Json.null))]).toArray)]).toArray

/-- one commit: (reply, state afterwards when it completed) -/
def commitOnce (S : IState) (flag forwards auto : Bool) (tree : List Stmt) : Json × Option IState :=
  let ps := flattenL forwards flag [] tree
  let top : List Pyr.Actions.Act := ps.map fun p =>
    { id := p.id, disc := (match p.disc with | some d => .val d | none => .none), order := p.order, path := p.path }
  let (oc, executed) := if auto then (Pyr.Actions.Outcome.ok, ps.map (·.id))
                        else Pyr.Actions.run Pyr.Actions.noKids (2 * ps.length + 4) top
  let pendJ := Json.arr (ps.map fun p => Json.arr #[toJson p.id, toJson p.path, toJson p.intrs.length]).toArray
  match oc with
  | .ok =>
    match registerAll (declsOf ps) executed S with
    | .ok S' => (Json.mkObj [("outcome", "ok"), ("executed", toJson executed), ("pending", pendJ),
                             ("reg", "ok"), ("state", viewJ S')], some S')
    | .error e => (Json.mkObj [("outcome", "ok"), ("executed", toJson executed), ("pending", pendJ),
                               ("reg", errJ e), ("state", Json.null)], none)
  | oc => (Json.mkObj [("outcome", outcomeJ oc), ("executed", toJson executed), ("pending", pendJ),
                       ("reg", Json.null), ("state", Json.null)], none)

def runHistory (flag forwards : Bool) : IState → List (Bool × List Stmt) → List Json
  | _, [] => []
  | S, (auto, tree) :: r =>
    match commitOnce S flag forwards auto tree with
    | (j, some S') => j :: runHistory flag forwards S' r
    | (j, none) => [j]

def main : IO Unit := jsonDriver fun j => do
  let op : String ← getAs j "op"
  match op with
  | "ops" =>
    let sj ← getField j "seq"
    let seq ← match sj with
      | .arr xs => pure xs.toList
      | _ => throw "bad seq"
    let rs ← runOps IState.empty seq
    return Json.mkObj [("results", Json.arr rs.toArray)]
  | "commit" =>
    let base ← parseState (← getField j "base")
    let flag : Bool ← getAs j "flag"
    let forwards : Bool ← getAs j "forwards"
    let tj ← getField j "tree"
    let tree ← match tj with
      | .arr xs => xs.toList.mapM parseStmt
      | _ => throw "bad tree"
    let ps := flattenL forwards flag [] tree
    let top : List Pyr.Actions.Act := ps.map fun p =>
      { id := p.id, disc := (match p.disc with | some d => .val d | none => .none), order := p.order, path := p.path }
    let (oc, executed) := Pyr.Actions.run Pyr.Actions.noKids (2 * ps.length + 4) top
    let pendJ := Json.arr (ps.map fun p => Json.arr #[toJson p.id, toJson p.path, toJson p.intrs.length]).toArray
    match oc with
    | .ok =>
      match registerAll (declsOf ps) executed base with
      | .ok S => return Json.mkObj [("outcome", "ok"), ("executed", toJson executed), ("pending", pendJ),
                                    ("reg", "ok"), ("state", viewJ S)]
      | .error e => return Json.mkObj [("outcome", "ok"), ("executed", toJson executed), ("pending", pendJ),
                                       ("reg", errJ e), ("state", Json.null)]
    | oc => return Json.mkObj [("outcome", outcomeJ oc), ("executed", toJson executed), ("pending", pendJ),
                               ("reg", Json.null), ("state", Json.null)]
  | "history" =>
    let base ← parseState (← getField j "base")
    let flag : Bool ← getAs j "flag"
    let forwards : Bool ← getAs j "forwards"
    let cj ← getField j "commits"
    let commits ← match cj with
      | .arr xs => xs.toList.mapM fun c => do
        let auto : Bool ← getAs c "auto"
        let tj ← getField c "tree"
        let tree ← match tj with
          | .arr ys => ys.toList.mapM parseStmt
          | _ => throw "bad tree"
        pure (auto, tree)
      | _ => throw "bad commits"
    return Json.mkObj [("commits", Json.arr (runHistory flag forwards base commits).toArray)]
  | "spec" => return specJ
  | _ => throw s!"unknown op {op}"
