-- driver stub for C20 (replaced when the model is built)
def main : IO Unit := pure ()
