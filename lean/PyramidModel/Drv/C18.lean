import PyramidModel.Prelude
import PyramidModel.TopoSort
/-! Driver for C18.
in : {"first":n,"last":n,"defBefore":null|[…],"defAfter":null|[…],"ops":[[name, after|null, before|null],…],
      "explicit":[…]}            (explicit = explicit tween list, may be empty)
out: {"result":{"ok":[…]}|{"unsatBefore":[…]}|{"unsatAfter":[…]}|{"cyclic":[…]}, "names":[…],
      "trace":[…]}              trace of the composed handler: n>=0 enter n, -(n+1) exit n, "core" = 1000000
with "hops":[["add",n,after|null,before|null] | ["remove",n] | ["sorted"], …] ("ops" may be []) instead:
out: {"replies":[ "added" | "removed" | "absent" | {"result":…,"names":[…]} , … ], "names":[…final…]} -/
open Pyr Pyr.Topo Lean

def optList (j : Json) : Except String (Option (List Nat)) :=
  match j with
  | .null => pure none
  | j => do let l : List Nat ← fromJson? j; pure (some l)

def parseOp (j : Json) : Except String AddOp :=
  match j with
  | .arr #[n, a, b] => do
    let name : Nat ← fromJson? n
    pure { name := name, after := ← optList a, before := ← optList b }
  | _ => throw "bad op"

def evJson : Ev → Json
  | .enter n => toJson (Int.ofNat n)
  | .exit n => toJson (-(Int.ofNat n) - 1)
  | .core => toJson (1000000 : Nat)

def sortedArr (l : List Nat) : Json := toJson (l.toArray.qsort (· < ·))

def resJson : SortResult → Json
  | .ok ns => Json.mkObj [("ok", toJson ns)]
  | .unsatBefore w => Json.mkObj [("unsatBefore", sortedArr w)]
  | .unsatAfter w => Json.mkObj [("unsatAfter", sortedArr w)]
  | .cyclic l => Json.mkObj [("cyclic", sortedArr l)]

/-- one call of a history: ["add", name, after|null, before|null] | ["remove", name] | ["sorted"] -/
def parseHOp (j : Json) : Except String HOp :=
  match j with
  | .arr #[.str "add", n, a, b] => do
    let name : Nat ← fromJson? n
    pure (.add { name := name, after := ← optList a, before := ← optList b })
  | .arr #[.str "remove", n] => do
    let name : Nat ← fromJson? n
    pure (.remove name)
  | .arr #[.str "sorted"] => pure .query
  | _ => throw "bad history op"

/-- replies of a history, one per call: add ↦ "added", remove ↦ "removed" / "absent" (the real call raises
ValueError), sorted ↦ {"result": …, "names": …} of the state at that point -/
def historyReplies (s : Sorter) : List HOp → List Json
  | [] => []
  | op :: rest =>
    let here : Json := match op with
      | .add _ => "added"
      | .remove n => if (s.removeOp n).2 then "removed" else "absent"
      | .query => Json.mkObj [("result", resJson s.sorted), ("names", toJson s.names)]
    here :: historyReplies (op.step s) rest

def main : IO Unit := jsonDriver fun j => do
  let first : Nat ← getAs j "first"
  let last : Nat ← getAs j "last"
  let dB ← optList (← getField j "defBefore")
  let dA ← optList (← getField j "defAfter")
  let opsJ ← getField j "ops"
  let ops ← match opsJ with
    | .arr xs => xs.toList.mapM parseOp
    | _ => throw "bad ops"
  let explicit : List Nat ← getAs j "explicit"
  let s0 : Sorter := { defBefore := dB, defAfter := dA, first := first, last := last }
  match j.getObjVal? "hops" with
  | .ok (.arr hs) =>
    let hops ← hs.toList.mapM parseHOp
    return Json.mkObj [("replies", Json.arr (historyReplies s0 hops).toArray),
      ("names", toJson (hops.foldl HOp.step s0).names)]
  | _ => pure ()
  let s := s0.addAll ops
  let r := s.sorted
  let (res, implicit) : Json × List Nat := match r with
    | .ok ns => (Json.mkObj [("ok", toJson ns)], ns)
    | .unsatBefore w => (Json.mkObj [("unsatBefore", sortedArr w)], [])
    | .unsatAfter w => (Json.mkObj [("unsatAfter", sortedArr w)], [])
    | .cyclic l => (Json.mkObj [("cyclic", sortedArr l)], [])
  let trace := compose (tweensUse explicit implicit) [Ev.core]
  return Json.mkObj [("result", res), ("names", toJson s.names),
    ("trace", Json.arr (trace.map evJson).toArray)]
