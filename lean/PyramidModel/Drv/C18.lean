-- driver stub for C18 (replaced when the model is built)
def main : IO Unit := pure ()
