import PyramidModel.Prelude
import PyramidModel.Lemmas.Traversal
/-! Driver for C02: one JSON case per line.  Text = list of code points, WSGI strings / bytes = list of 0..255.

in : {"op":"trav","tree":T,"path":[b…]|null,"vroot":[b…]|null,"md":null|{"traverse":X,"subpath":X}}
       T = {"g":bool,"k":[[name,T],…]}      X = null | {"s":text} | {"t":[text,…]}
     {"op":"api","tree":T,"start":[text,…],"path":X}
     {"op":"tpath","path":text}   {"op":"tpi","path":[b…]}   {"op":"split","path":text}   {"op":"join","tuple":[text,…]}
out: {"ok":…} | {"err":"urldecode"|"unicodedecode"|"unicodeencode"|"keyerror"|"outside"|"badstart"}
     for trav/api additionally "spec": the declarative reading (Lemmas/Traversal.lean `specResult`) -/
open Pyr Pyr.Trav Lean

namespace DrvC02

def textOf (j : Json) : Except String Text := do
  let cs : List Nat ← fromJson? j
  pure (cs.map Char.ofNat)

def bytesOf (j : Json) : Except String Bytes := do
  let cs : List Nat ← fromJson? j
  pure (cs.map UInt8.ofNat)

def textsOf (j : Json) : Except String (List Text) :=
  match j with
  | .arr xs => xs.toList.mapM textOf
  | _ => throw "expected a list of texts"

def jText (t : Text) : Json := toJson (t.map Char.toNat)
def jTexts (ts : List Text) : Json := Json.arr (ts.map jText).toArray

partial def parseTree (j : Json) : Except String Tree := do
  let g : Bool ← getAs j "g"
  let kj ← getField j "k"
  match kj with
  | .arr xs =>
    let kids ← xs.toList.mapM fun p =>
      match p with
      | .arr #[n, t] => do
        let name ← textOf n
        let sub ← parseTree t
        pure (name, sub)
      | _ => throw "bad child"
    pure (Tree.mk g kids)
  | _ => throw "bad kids"

def parseSoT (j : Json) : Except String (Option StrOrTuple) :=
  match j with
  | .null => pure none
  | _ =>
    match j.getObjVal? "s" with
    | .ok s => do pure (some (.str (← textOf s)))
    | .error _ => do
      let t ← getField j "t"
      pure (some (.tup (← textsOf t)))

def optBytes (j : Json) (k : String) : Except String (Option Bytes) :=
  match j.getObjVal? k with
  | .ok .null => pure none
  | .ok v => do pure (some (← bytesOf v))
  | .error _ => pure none

def errName : Err → String
  | .urlDecode => "urldecode"
  | .unicodeDecode => "unicodedecode"
  | .unicodeEncode => "unicodeencode"
  | .keyError => "keyerror"
  | .outsideModel => "outside"
  | .badStart => "badstart"

def jResult (r : Result) : Json := Json.mkObj [
  ("context", jTexts r.context), ("view_name", jText r.viewName), ("subpath", jTexts r.subpath),
  ("traversed", jTexts r.traversed), ("virtual_root", jTexts r.virtualRoot),
  ("virtual_root_path", jTexts r.virtualRootPath)]

def jOut {α} (f : α → Json) : Except Err α → List (String × Json)
  | .ok a => [("ok", f a)]
  | .error e => [("err", Json.str (errName e))]

def handle (j : Json) : Except String Json := do
  let op : String ← getAs j "op"
  match op with
  | "trav" =>
    let tree ← parseTree (← getField j "tree")
    let path ← optBytes j "path"
    let vroot ← optBytes j "vroot"
    let md ← match j.getObjVal? "md" with
      | .ok .null => pure none
      | .error _ => pure none
      | .ok m => do
        let tr ← match m.getObjVal? "traverse" with
          | .ok v => parseSoT v
          | .error _ => pure none
        let sp ← match m.getObjVal? "subpath" with
          | .ok v => parseSoT v
          | .error _ => pure none
        pure (some ({ traverse := tr, subpath := sp } : MatchDict))
    let rq : Req := { pathInfo := path, vroot := vroot, matchdict := md }
    let out := traverser tree rq
    let spec := specTraverser tree rq
    pure (Json.mkObj (jOut jResult out ++ [("spec", Json.mkObj (jOut jResult spec))]))
  | "api" =>
    let tree ← parseTree (← getField j "tree")
    let start ← textsOf (← getField j "start")
    let some path ← parseSoT (← getField j "path") | throw "path required"
    let out := traverseApi tree start path
    pure (Json.mkObj (jOut (fun (a : ApiResult) => Json.mkObj [("base", jTexts a.base), ("res", jResult a.res)]) out))
  | "tpath" =>
    let p ← textOf (← getField j "path")
    pure (Json.mkObj (jOut jTexts (traversalPath p)))
  | "tpi" =>
    let p ← bytesOf (← getField j "path")
    pure (Json.mkObj (jOut jTexts (traversalPathInfo p)))
  | "split" =>
    let p ← textOf (← getField j "path")
    pure (Json.mkObj [("ok", jTexts (splitPathInfo p))])
  | "join" =>
    let t ← textsOf (← getField j "tuple")
    pure (Json.mkObj [("ok", jText (joinPathTuple t))])
  | _ => throw s!"unknown op {op}"

end DrvC02

def main : IO Unit := jsonDriver DrvC02.handle
