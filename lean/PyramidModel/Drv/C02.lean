-- driver stub for C02 (replaced when the model is built)
def main : IO Unit := pure ()
