-- stub driver, replaced by the builder of X05
def main : IO Unit := pure ()
