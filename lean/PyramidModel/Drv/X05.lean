import PyramidModel.Prelude
import PyramidModel.AuthPolicy
import PyramidModel.Lemmas.AuthPolicySpec
import PyramidModel.Acl
/-! Driver for X05: one JSON case per line.  Text t = list of code points.
prin  P = {"s":t} | {"i":n}          optional prin  OP = null | P          groups G = null | [P,…]
ident I = {"userid": OP, "tag": n}  or  {"tag": n}   (no "userid" member = the dict lacks the key)
in : {"op":"parse","h": null | t}
     {"op":"format","u":t,"p":t}
     {"op":"fmt","s":t,"args":[t,…]}
     {"op":"policy",
        "kind":"remote"|"session"|"repoze"|"basic", "prefix":t, "realm":t,
        "cb": null | {"rows":[[A,G],…],"default":G}      A = P (remote, session) | I (repoze) | [t,t] (basic: check(u,p))
        "req": {"remote":OP, "identity": null|I, "plugins": null|bool, "authorization": null|t, "session":[[t,OP],…]},
        "sec":"none"|"legacy"|"custom",
        "custom": {"identity":OP,"userid":OP,"permits":[[ctx,perm],…],"remember":[[t,t],…],"forget":[[t,t],…]},
        "authz": {"kind":"table","allow":[[ctx,[P,…],perm],…]} | {"kind":"acl","contexts":[[null|[[action,P,perms],…],…],…]}
                 (acl: a context number indexes "contexts"; action 0=Allow 1=Deny 2=other; perms = n | [n,…] | "all")
        "perm":n, "ctx_arg": null|n, "uid":P (what is remembered)}
out: parse  {"out": null | "raises" | {"u":t,"p":t}}
     format {"h":t}
     fmt    {"ok":t} | {"err":"TypeError"|"ValueError"|"unmodelled"}
     policy {"unauth":R OP,"auth":R OP,"identity":R OP,"is_auth":R bool,"eff":R [P…],"perm":R X,"perm_ctx":R X,
             "remember":R {"h":H,"s":session},"forget":…,"forget_kw":…,"verified":R (null | {"u":P,"g":[P…]})}
            R v = {"ok":v} | {"err":"KeyError"|"UnicodeEncodeError"|"ValueError"}     X = "nopolicy" | bool
            H = {"list":[[t,t],…]} | {"plugin_remember":P} | {"plugin_forget": null|I} -/
open Pyr Pyr.AuthPolicy Lean

namespace DrvX05

def textOf (j : Json) : Except String Text := do
  let cs : List Nat ← fromJson? j
  pure (cs.map Char.ofNat)

def jText (t : Text) : Json := toJson (t.map Char.toNat)

def prinOf (j : Json) : Except String Prin :=
  match j.getObjVal? "s" with
  | .ok t => do pure (.str (← textOf t))
  | .error _ => do
    let n : Int ← getAs j "i"
    pure (.int n)

def optPrinOf (j : Json) : Except String (Option Prin) :=
  match j with
  | .null => pure none
  | _ => some <$> prinOf j

def jPrin : Prin → Json
  | .str t => Json.mkObj [("s", jText t)]
  | .int n => Json.mkObj [("i", toJson n)]

def jOptPrin : Option Prin → Json
  | none => Json.null
  | some p => jPrin p

def arrOf (j : Json) : Except String (List Json) :=
  match j with
  | .arr xs => pure xs.toList
  | _ => throw "expected a list"

def groupsOf (j : Json) : Except String Groups :=
  match j with
  | .null => pure none
  | _ => do pure (some (← (← arrOf j).mapM prinOf))

def identOf (j : Json) : Except String AuthPolicy.Ident := do
  let tag : Nat ← getAs j "tag"
  match j.getObjVal? "userid" with
  | .ok u => do pure { userid := some (← optPrinOf u), tag := tag }
  | .error _ => pure { userid := none, tag := tag }

def jIdent (i : AuthPolicy.Ident) : Json :=
  match i.userid with
  | none => Json.mkObj [("tag", toJson i.tag)]
  | some u => Json.mkObj [("tag", toJson i.tag), ("userid", jOptPrin u)]

def pairsOf (j : Json) : Except String (List (Text × Text)) := do
  (← arrOf j).mapM fun p =>
    match p with
    | .arr #[a, b] => do pure (← textOf a, ← textOf b)
    | _ => throw "bad pair"

def jPairs (ps : List (Text × Text)) : Json := Json.arr (ps.map fun p => Json.arr #[jText p.1, jText p.2]).toArray

def sessionOf (j : Json) : Except String Session := do
  (← arrOf j).mapM fun p =>
    match p with
    | .arr #[a, b] => do pure (← textOf a, ← optPrinOf b)
    | _ => throw "bad session item"

def jSession (s : Session) : Json := Json.arr (s.map fun p => Json.arr #[jText p.1, jOptPrin p.2]).toArray

/-- a callback given by a finite table and a default answer -/
def tableFn {α} [BEq α] (rows : List (α × Groups)) (dflt : Groups) : α → Groups := fun a =>
  match rows.lookup a with
  | some g => g
  | none => dflt

def cbOf {α} [BEq α] (argOf : Json → Except String α) (j : Json) : Except String (Option (α → Groups)) :=
  match j with
  | .null => pure none
  | _ => do
    let rows ← (← arrOf (← getField j "rows")).mapM fun p =>
      match p with
      | .arr #[a, g] => do pure (← argOf a, ← groupsOf g)
      | _ => throw "bad callback row"
    let d ← groupsOf (← getField j "default")
    pure (some (tableFn rows d))

def credOf (j : Json) : Except String (Text × Text) :=
  match j with
  | .arr #[a, b] => do pure (← textOf a, ← textOf b)
  | _ => throw "bad credentials"

instance : BEq AuthPolicy.Ident := ⟨fun a b => decide (a = b)⟩

def jErr : Err → Json
  | .keyError => "KeyError"
  | .unicodeEncodeError => "UnicodeEncodeError"
  | .valueError => "ValueError"

def jR {α} (f : α → Json) : R α → Json
  | .ok v => Json.mkObj [("ok", f v)]
  | .error e => Json.mkObj [("err", jErr e)]

def jHeaders : Headers → Json
  | .list hs => Json.mkObj [("list", jPairs hs)]
  | .pluginRemember u => Json.mkObj [("plugin_remember", jPrin u)]
  | .pluginForget i => Json.mkObj [("plugin_forget", match i with | none => Json.null | some i => jIdent i)]

def jHS (x : Headers × Session) : Json := Json.mkObj [("h", jHeaders x.1), ("s", jSession x.2)]

def jPermOut : PermOut → Json
  | .noPolicy => "nopolicy"
  | .decided b => toJson b

def jParse : Parse → Json
  | .none => Json.null
  | .raises => "raises"
  | .creds u p => Json.mkObj [("u", jText u), ("p", jText p)]

/-! ACL contexts (C11's model): principals are interned by their position in `univ` -/
def parsePerms (j : Json) : Except String Acl.Perms :=
  match j with
  | .str "all" => pure .all
  | .arr xs => do pure (.many (← xs.toList.mapM fun x => (fromJson? x : Except String Nat)))
  | j => do pure (.one (← (fromJson? j : Except String Nat)))

def parseAce (j : Json) : Except String (Acl.Action × Prin × Acl.Perms) :=
  match j with
  | .arr #[a, w, p] => do
    let an : Nat ← fromJson? a
    let act ← match an with
      | 0 => pure Acl.Action.allow
      | 1 => pure Acl.Action.deny
      | 2 => pure Acl.Action.other
      | _ => throw "bad action"
    pure (act, ← prinOf w, ← parsePerms p)
  | _ => throw "bad ace"

def parseLineage (j : Json) : Except String (List (Option (List (Acl.Action × Prin × Acl.Perms)))) := do
  (← arrOf j).mapM fun n =>
    match n with
    | .null => pure none
    | _ => do pure (some (← (← arrOf n).mapM parseAce))

/-- the name of a principal: its position in the universe (a principal outside maps to `univ.length`, a name no ACE has) -/
def nameOf (univ : List Prin) (p : Prin) : Nat := univ.idxOf p

def internLineage (univ : List Prin) (l : List (Option (List (Acl.Action × Prin × Acl.Perms)))) : Acl.Lineage :=
  l.map fun n => n.map fun aces => aces.map fun a => ⟨a.1, nameOf univ a.2.1, a.2.2⟩

/-- `ACLAuthorizationPolicy().permits(context, principals, permission)` by C11's model -/
def aclAuthz (univ : List Prin) (ctxs : List Acl.Lineage) : Nat → List Prin → Nat → Bool := fun c ps perm =>
  Acl.permits (ps.map (nameOf univ)) perm (ctxs.getD c [])

def reqOf (j : Json) : Except String Req := do
  let remote ← optPrinOf (← getField j "remote")
  let identity ← match ← getField j "identity" with
    | .null => pure none
    | i => some <$> identOf i
  let plugins : Option Bool ← match ← getField j "plugins" with
    | .null => pure none
    | b => some <$> (fromJson? b : Except String Bool)
  let authorization ← match ← getField j "authorization" with
    | .null => pure none
    | t => some <$> textOf t
  let session ← sessionOf (← getField j "session")
  pure { remoteUser := remote, identity := identity, plugins := plugins, authorization := authorization, session := session }

def policyOf (j : Json) : Except String Policy := do
  let kind : String ← getAs j "kind"
  let cbj ← getField j "cb"
  match kind with
  | "remote" => do pure (.remoteUser (← cbOf prinOf cbj))
  | "session" => do pure (.session (← textOf (← getField j "prefix")) (← cbOf prinOf cbj))
  | "repoze" => do pure (.repoze (← cbOf identOf cbj))
  | "basic" => do
    let f ← cbOf credOf cbj
    let check : Text → Text → Groups := match f with
      | some f => fun u p => f (u, p)
      | none => fun _ _ => none
    pure (.basic check (← textOf (← getField j "realm")))
  | _ => throw s!"unknown kind {kind}"

def secOf (j : Json) (pol : Policy) : Except String (Sec Nat Nat) := do
  let sec : String ← getAs j "sec"
  match sec with
  | "none" => pure .none
  | "custom" => do
    let c ← getField j "custom"
    let permits : List (Nat × Nat) ← (← arrOf (← getField c "permits")).mapM fun p =>
      match p with
      | .arr #[a, b] => do pure ((← fromJson? a : Nat), (← fromJson? b : Nat))
      | _ => throw "bad permits row"
    let rem ← pairsOf (← getField c "remember")
    pure (.custom { identity := ← optPrinOf (← getField c "identity"), userid := ← optPrinOf (← getField c "userid"),
                    permits := fun ctx perm => permits.contains (ctx, perm), remember := fun _ => rem,
                    forget := ← pairsOf (← getField c "forget") })
  | "legacy" => do
    let a ← getField j "authz"
    let kind : String ← getAs a "kind"
    match kind with
    | "table" => do
      let rows : List (Nat × List Prin × Nat) ← (← arrOf (← getField a "allow")).mapM fun r =>
        match r with
        | .arr #[c, ps, p] => do pure ((← fromJson? c : Nat), ← (← arrOf ps).mapM prinOf, (← fromJson? p : Nat))
        | _ => throw "bad allow row"
      pure (.legacy pol fun c ps p => rows.contains (c, ps, p))
    | "acl" => do
      let raw ← (← arrOf (← getField a "contexts")).mapM parseLineage
      let univ := (raw.flatMap fun l => l.flatMap fun n => (n.getD []).map (·.2.1)).eraseDups
      pure (.legacy pol (aclAuthz univ (raw.map (internLineage univ))))
    | _ => throw s!"unknown authz {kind}"
  | _ => throw s!"unknown sec {sec}"

def jVerified : Option (Prin × List Prin) → Json
  | none => Json.null
  | some (u, gs) => Json.mkObj [("u", jPrin u), ("g", Json.arr (gs.map jPrin).toArray)]

end DrvX05
open DrvX05

def main : IO Unit := jsonDriver fun j => do
  let op : String ← getAs j "op"
  match op with
  | "parse" =>
    let h ← match ← getField j "h" with
      | .null => pure none
      | t => some <$> textOf t
    return Json.mkObj [("out", jParse (parseBasic h))]
  | "format" =>
    let u ← textOf (← getField j "u")
    let p ← textOf (← getField j "p")
    return Json.mkObj [("h", jText (formatBasic u p))]
  | "fmt" =>
    let s ← textOf (← getField j "s")
    let args ← (← arrOf (← getField j "args")).mapM textOf
    match fmt s args with
    | .ok t => return Json.mkObj [("ok", jText t)]
    | .error .typeError => return Json.mkObj [("err", "TypeError")]
    | .error .valueError => return Json.mkObj [("err", "ValueError")]
    | .error .unmodelled => return Json.mkObj [("err", "unmodelled")]
  | "policy" =>
    let pol ← policyOf j
    let req ← reqOf (← getField j "req")
    let sec ← secOf j pol
    let perm : Nat ← getAs j "perm"
    let ctxArg : Option Nat ← match ← getField j "ctx_arg" with
      | .null => pure none
      | n => some <$> (fromJson? n : Except String Nat)
    let uid ← prinOf (← getField j "uid")
    return Json.mkObj [
      ("unauth", jR jOptPrin (reqUnauthUserid sec req)),
      ("auth", jR jOptPrin (reqAuthUserid sec req)),
      ("identity", jR jOptPrin (reqIdentity sec req)),
      ("is_auth", jR toJson (reqIsAuthenticated sec req)),
      ("eff", jR (fun ps => Json.arr (ps.map jPrin).toArray) (reqEffPrincipals sec req)),
      ("perm", jR jPermOut (reqHasPermission sec req perm none 0)),
      ("perm_ctx", jR jPermOut (reqHasPermission sec req perm ctxArg 0)),
      ("remember", jR jHS (secRemember sec req uid)),
      ("forget", jR jHS (secForget sec req false)),
      ("forget_kw", jR jHS (secForget sec req true)),
      ("verified", jR jVerified (verified pol req)),
      ("spec_auth", jR jOptPrin (specAuthUserid pol req)),
      ("spec_eff", jR (fun ps => Json.arr (ps.map jPrin).toArray) (specPrincipals pol req))]
  | _ => throw s!"unknown op {op}"
