-- driver stub for C14 (replaced when the model is built)
def main : IO Unit := pure ()
