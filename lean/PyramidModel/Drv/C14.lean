import PyramidModel.Prelude
import PyramidModel.ViewLookupJson
import PyramidModel.Lemmas.ExcViewSpec
/-! Driver for C14: one JSON case per line (see `harness/c14.py: model_input`).
in : {"stmts":[{req,ctx,name,preds,accept,perm:"unset"|"npr"|"named",isexc,xonly,tag,body:["respond"]|["ctx"]|["raise",exc],touch:b}…],
      "above":{"before":exc|null,"after":exc|null}, "policy":null|{"excinfo":null|"current"|exc,"secure":b,"reraise":b}, world.vresp:n,
      "world":{"policy":b,"defperm":b,"nf":exc,"mm":exc,"fb":exc,"xnf":exc,"xmm":exc,"xfb":exc},
      "site":["early",exc]|["lookup"], "req":request, "comb":[n…], "ctxobj":n, "attrs":[[k,v]…]}
     exc = {"id":n,"sro":[n…],"nf":b,"status":n|null}
out: {"out":…, "seen":…, "attrs":[exception,exc_info,response], "caught":id|null, "spec":{same three},
      "main":outcome of the main lookup, "exc":outcome of the exception lookup (null if nothing was caught),
      "cands":[tags of the competing exception views], "coherent":b, "wf":b, "derived":[[order,phash,#preds]…per reg]} -/
open Pyr Pyr.ViewLookup Pyr.ExcView Lean
open Pyr.ViewLookup.Drv

def parseExc (j : Json) : Except String Exc := do
  let id ← (← j.getObjVal? "id").getNat?
  let sro ← natList (← j.getObjVal? "sro")
  let nf ← (← j.getObjVal? "nf").getBool?
  let st ← optNat (← j.getObjVal? "status")
  pure ⟨id, sro, nf, st⟩

def parseBody (j : Json) : Except String Body :=
  match j with
  | .arr #[.str "respond"] => pure .respond
  | .arr #[.str "ctx"] => pure .returnContext
  | .arr #[.str "raise", e] => do pure (.raise (← parseExc e))
  | _ => throw "bad body"

def parseStmt (j : Json) : Except String Stmt := do
  let rq ← (← j.getObjVal? "req").getNat?
  let cx ← (← j.getObjVal? "ctx").getNat?
  let name ← (← j.getObjVal? "name").getStr?
  let preds ← (← (← j.getObjVal? "preds").getArr?).toList.mapM parsePred
  let acc ← match (← j.getObjVal? "accept") with
    | .null => pure none
    | a => do pure (some (← parseOffer a))
  let perm ← match (← (← j.getObjVal? "perm").getStr?) with
    | "unset" => pure Perm.unset
    | "npr" => pure Perm.noPermissionRequired
    | "named" => pure Perm.named
    | p => throw s!"bad perm {p}"
  let isexc ← (← j.getObjVal? "isexc").getBool?
  let xonly ← (← j.getObjVal? "xonly").getBool?
  let tag ← (← j.getObjVal? "tag").getNat?
  let body ← parseBody (← j.getObjVal? "body")
  let touch ← (← j.getObjVal? "touch").getBool?
  let kind ← match (← (← j.getObjVal? "vk").getStr?) with
    | "fn2" => pure ViewKind.fnCR
    | "fn1" => pure ViewKind.fnR
    | "cls2" => pure ViewKind.clsCR
    | "cls2c" => pure ViewKind.clsCRcall
    | "cls1" => pure ViewKind.clsR
    | "inst2" => pure ViewKind.instCR
    | "inst1" => pure ViewKind.instR
    | k => throw s!"bad view kind {k}"
  pure ⟨rq, cx, name, preds, acc, perm, isexc, xonly, tag, body, touch, kind⟩

def parseWorld (j : Json) : Except String World := do
  let e := fun (f : String) => do parseExc (← j.getObjVal? f)
  pure { sec := ⟨← (← j.getObjVal? "policy").getBool?, ← (← j.getObjVal? "defperm").getBool?⟩,
         notFound := ← e "nf", mismatch := ← e "mm", forbidden := ← e "fb",
         excNotFound := ← e "xnf", excMismatch := ← e "xmm", excForbidden := ← e "xfb",
         viewResponse := ← (← j.getObjVal? "vresp").getNat? }

def parseSite (j : Json) : Except String Site :=
  match j with
  | .arr #[.str "lookup"] => pure .lookup
  | .arr #[.str "early", e] => do pure (.early (← parseExc e))
  | _ => throw "bad site"

def parseDict (j : Json) : Except String Dict := do
  (← j.getArr?).toList.mapM fun x => do
    match x with
    | .arr #[k, v] => pure ((← k.getStr?), (← v.getNat?))
    | _ => throw "bad attr"

def parseOptExc (j : Json) : Except String (Option Exc) :=
  match j with
  | .null => pure none
  | j => do pure (some (← parseExc j))

def optJson : Option Nat → Json
  | none => Json.null
  | some n => toJson n

def respJson : Except Exc Resp → Json
  | .ok (.view t) => Json.arr #["resp", "view", toJson t]
  | .ok (.self o st) => Json.arr #["resp", "self", toJson o, optJson st]
  | .error e => Json.arr #["raise", toJson e.id]

def seenJson : Option Seen → Json
  | none => Json.null
  | some s => Json.arr #[optJson s.userContext, optJson s.exception, optJson s.excInfo, optJson s.response]

def main : IO Unit := jsonDriver fun j => do
  let stmts ← (← (← j.getObjVal? "stmts").getArr?).toList.mapM parseStmt
  let w ← parseWorld (← j.getObjVal? "world")
  let site ← parseSite (← j.getObjVal? "site")
  let req ← parseReq (← j.getObjVal? "req")
  let comb ← natList (← j.getObjVal? "comb")
  let ctxObj ← (← j.getObjVal? "ctxobj").getNat?
  let d ← parseDict (← j.getObjVal? "attrs")
  let aj ← j.getObjVal? "above"
  let above : Above := ⟨← parseOptExc (← aj.getObjVal? "before"), ← parseOptExc (← aj.getObjVal? "after")⟩
  let res0 := invokeRequest w stmts above site req comb ctxObj d
  let pol ← match (← j.getObjVal? "policy") with
    | .null => pure Policy.default
    | pj => do
      let ei ← match (← pj.getObjVal? "excinfo") with
        | .null => pure none
        | .str "current" => pure (match res0.outcome with | .error x => some x | .ok _ => none)
        | ej => do pure (some (← parseExc ej))
      pure (Policy.invoking ⟨ei, ← (← pj.getObjVal? "secure").getBool?, ← (← pj.getObjVal? "reraise").getBool?⟩)
  let tw := excviewTween w stmts site req comb ctxObj d
  let res : Result := { executionPolicy pol w stmts above site req comb ctxObj d with
                        caught := match above.before with | some _ => none | none => tw.caught }
  let sp := specPolicy pol w stmts above site req comb ctxObj d
  let regs := allRegs w.sec stmts
  let reg := registerAll regs
  let names := ["exception", "exc_info", "response"]
  let (excOut, cands) : Json × List Nat := match res.caught with
    | none => (Json.null, [])
    | some e =>
      let r' := excRequest req e comb
      (outJson (callView reg clsExc r'), (candidates regs clsExc r').map DView.tag)
  let derived := regs.map fun r =>
    let dv := derive r
    Json.arr #[toJson r.classifier, toJson r.tag, toJson dv.order, toJson dv.phash, toJson dv.preds.length, toJson dv.secured]
  return Json.mkObj [
    ("out", respJson res.outcome), ("seen", seenJson res.seen),
    ("attrs", Json.arr (names.map fun k => optJson (dget res.attrs k)).toArray),
    ("caught", match res.caught with | none => Json.null | some e => toJson e.id),
    ("spec", Json.mkObj [("out", respJson sp.outcome), ("seen", seenJson sp.seen),
                         ("attrs", Json.arr (names.map fun k => optJson (sp.attr k)).toArray)]),
    ("main", match site with | .lookup => outJson (callView reg clsView req) | .early _ => Json.null),
    ("exc", excOut), ("cands", toJson cands),
    ("coherent", toJson (coherentB regs)), ("wf", toJson (w.ok && tagsUniqueB stmts && stmtsOkB stmts)),
    ("derived", Json.arr derived.toArray)]
