-- driver stub for C08 (replaced when the model is built)
def main : IO Unit := pure ()
