import PyramidModel.Prelude
import PyramidModel.ConfigFootprints
import PyramidModel.Gen.C08Phases
/-! Driver for C08: one JSON case per line.
in : {"actions":[{"id":n,"kind":"addView","disc":null|n,"args":[["viewSlot",k],…],"vorder":null|n,"pkg":n},…],
      "variants":[{"order":[ids in declaration order],"paths":[[n,…] include path per position]},…],
      "pre":{"order":[…],"paths":[…]}   (optional: the actions of an EARLIER commit, executed first, same for all variants)}
out: {"table_ok":bool,
      "phases":[phase of the kind in Gen/C08Phases.lean | null, per action],
      "footprints":[{"id","reads":[[fam,key]…],"writes":[[fam,key]…],"disc_reads":[fam…],"creates":[fam…]}],
      "pre_exec":[ids the earlier commit executes, in order],
      "variants":[{"out":"ok"|"conflict"|"regress"|"fuel","exec":[ids in execution order]}],
      "equal":bool      — the final stores of all variants under the FREE semantics (`herbrand`; view registrations
                          with a known predicate order: `viewFp` = multiview merge + free term of the rest) agree on every slot,
      "hyp":[bool]      — per variant: every same-phase pair declared in the opposite order than in variant 0 has
                          independent declared footprints or is a pair of view registrations with different predicate
                          order (hypothesis `hkeep` of `program_order_irrelevant`),
      "sensitive_swapped":[[[a,b]…]] — per variant: the swapped same-phase pairs of declared order-sensitive kinds
                          that share a slot}
The model execution is C04's `Actions.run` on the actions with the TABLE's phases. -/
open Pyr Pyr.Actions Pyr.ConfigOrder Lean

structure AIn where
  id : Nat
  kind : Kind
  disc : Option Nat
  args : List Slot
  /-- predicate `order` of a view registration (`view_intr['order']`, data from the real `PredicateList.make`) -/
  vorder : Option Nat
  /-- package of the issuing configurator (0 = the application's own); part of the statement's meaning -/
  pkg : Nat

def parseSlot (j : Json) : Except String Slot := do
  match j with
  | .arr xs =>
    if h : xs.size = 2 then
      let f : String ← fromJson? xs[0]
      let k : Nat ← fromJson? xs[1]
      match Fam.ofName f with
      | some fam => pure ⟨fam, k⟩
      | none => throw s!"unknown family {f}"
    else throw "bad slot"
  | _ => throw "bad slot"

def parseAction (j : Json) : Except String AIn := do
  let id : Nat ← getAs j "id"
  let kind : String ← getAs j "kind"
  let disc : Option Nat ← getAs j "disc"
  let aj ← getField j "args"
  let args ← match aj with
    | .arr xs => xs.toList.mapM parseSlot
    | _ => throw "bad args"
  let vorder : Option Nat := (j.getObjValAs? (Option Nat) "vorder").toOption.getD none
  let pkg : Nat := (j.getObjValAs? Nat "pkg").toOption.getD 0
  pure ⟨id, Kind.ofName kind, disc, args, vorder, pkg⟩

def rowOfKind (k : Kind) : Option Row := Gen.rows.find? (fun r => r.kind == k)

def slotJson (x : Slot) : Json := Json.arr #[Json.str x.fam.name, toJson x.key]

def outName : Outcome → String
  | .ok => "ok" | .conflict _ => "conflict" | .regress _ _ => "regress" | .fuel => "fuel"

def findA (as : List AIn) (i : Nat) : Option AIn := as.find? (fun a => a.id == i)

def fpOf (as : List AIn) (i : Nat) : Footprint :=
  match findA as i with
  | some a =>
    match a.kind, a.vorder with
    | .addView, some o => viewFp i o (instReads a.kind a.disc a.args) (instWrites a.kind a.disc a.args)
    | _, _ => herbrand i (instReads a.kind a.disc a.args) (instWrites a.kind a.disc a.args)
  | none => herbrand i [] []

/-- the pair may be swapped: independent footprints, or two view registrations with different predicate order
(`viewReg_commutes`: the merged lists agree; everything else they touch is read-only for both) -/
def pairFree (env : Env) (a b : AIn) : Bool :=
  indepB (env a.id) (env b.id) ||
  (match a.kind, b.kind, a.vorder, b.vorder with
   | .addView, .addView, some o1, some o2 => o1 != o2
   | _, _, _, _ => false)

def phaseOfA (a : AIn) : Option Int := (rowOfKind a.kind).bind (·.phase)

/-- position of `i` in `l` -/
def posOf (l : List Nat) (i : Nat) : Nat := (l.findIdx? (· == i)).getD l.length

def main : IO Unit := jsonDriver fun j => do
  let aj ← getField j "actions"
  let as ← match aj with
    | .arr xs => xs.toList.mapM parseAction
    | _ => throw "bad actions"
  let vj ← getField j "variants"
  let vs : List (List Nat × List (List Nat)) ← match vj with
    | .arr xs => xs.toList.mapM fun v => do
        let o : List Nat ← getAs v "order"
        let p : List (List Nat) ← getAs v "paths"
        pure (o, p)
    | _ => throw "bad variants"
  let pre : List Nat × List (List Nat) ← match j.getObjVal? "pre" with
    | .ok pj => do
        let o : List Nat ← getAs pj "order"
        let p : List (List Nat) ← getAs pj "paths"
        pure (o, p)
    | .error _ => pure ([], [])
  let env : Env := fpOf as
  let touched : List Slot := (as.flatMap fun a => (env a.id).reads ++ (env a.id).writes).eraseDups
  let actsOf := fun (v : List Nat × List (List Nat)) =>
    ((v.1.zip v.2).filterMap fun (i, p) =>
      (findA as i).map fun a => (⟨i, Disc.ofOption a.disc, (phaseOfA a).getD 0, p⟩ : Act))
  -- the earlier commit: its own `execute_actions`, on the empty registry
  let preActs := actsOf pre
  let preRun := Actions.run noKids (preActs.length + 1) preActs
  let st0 : Store := runIds env preRun.2 (fun _ => [])
  let runV := fun (v : List Nat × List (List Nat)) =>
    let acts : List Act := actsOf v
    let r := Actions.run noKids (acts.length + 1) acts
    let st := runIds env r.2 st0
    (r.1, r.2, touched.map st)
  let results := vs.map runV
  let equal := match results with
    | [] => true
    | r0 :: rest => rest.all fun r => r.2.2 == r0.2.2
  let order0 := (vs.head?.map (·.1)).getD []
  let swapped := fun (o : List Nat) =>
    (as.flatMap fun a => as.filterMap fun b =>
      if a.id < b.id && phaseOfA a == phaseOfA b &&
         (decide (posOf order0 a.id < posOf order0 b.id) != decide (posOf o a.id < posOf o b.id))
      then some (a, b) else none)
  let hyp := vs.map fun v => (swapped v.1).all fun (a, b) => pairFree env a b
  let sens := vs.map fun v => ((swapped v.1).filter fun (a, b) =>
      sensitive a.kind b.kind && !pairFree env a b).map fun (a, b) => [a.id, b.id]
  return Json.mkObj [
    ("table_ok", toJson (tableOK Gen.rows)),
    ("phases", toJson (as.map phaseOfA)),
    ("footprints", Json.arr (as.map fun a => Json.mkObj [
        ("id", toJson a.id),
        ("pkg", toJson a.pkg),
        ("reads", Json.arr ((env a.id).reads.map slotJson).toArray),
        ("writes", Json.arr ((env a.id).writes.map slotJson).toArray),
        ("disc_reads", toJson ((kfoot a.kind).discReads.map (·.name))),
        ("creates", toJson ((kcreates a.kind).map (·.name)))]).toArray),
    ("pre_exec", toJson preRun.2),
    ("variants", Json.arr (results.map fun r => Json.mkObj [
        ("out", Json.str (outName r.1)), ("exec", toJson r.2.1)]).toArray),
    ("equal", toJson equal),
    ("hyp", toJson hyp),
    ("sensitive_swapped", toJson sens)]
