import PyramidModel.Prelude
import PyramidModel.UrlGen
import PyramidModel.Url
/-! Driver for C06: one JSON case per line.  Texts travel as lists of code points, bytes as lists of numbers.
in : {"ucd":{"word":[cp…],"digit":[…],"space":[…]}, "rxlib":[RX…], "pattern":T,
      "kw":[[T, ["one",ATOM] | ["many",[ATOM…]]]…], "elems":[ATOM…], "script":T, "origin":T,
      "query":T|null, "anchor":T|null [, "history":[[ATOM…]…]  earlier route_path calls' elements (the lru_cache)]}
     ATOM = ["s",T] | ["b",[byte…]] | ["i","-12"] | ["o",T]          RX as in Drv/C01
     or {"op":"quote","safe":[byte…],"text":T}   (quote_path_segment alone)
out: {"compile":"ok"|"reerror"|"unsupported", "template":T, "gen":R, "path":R, "url":R, "pathinfo":[byte…]|null,
      "decoded":T|null, "match":ENV|null, "expect":ENV|null, "intended":T|null, "admissible":b,
      "closed":R (the token-wise substitution, must equal "gen")}
     R = {"ok":T} | {"err":"keyerror"|"unicodedecode"|"format"|"outside"}
     ENV = [[T,"s",T] | [T,"t",[T…]]…] -/
open Pyr Pyr.Rx Pyr.Route Pyr.UrlGen Lean

def jText (j : Json) : Except String Text := do
  let cs : List Nat ← fromJson? j
  pure (cs.map Char.ofNat)

def tJson (t : Text) : Json := toJson (t.map Char.toNat)

def jChar (j : Json) : Except String Char := do
  let n : Nat ← fromJson? j
  pure (Char.ofNat n)

def jEsc (j : Json) : Except String Esc :=
  match j with
  | .str "d" => pure .d
  | .str "w" => pure .w
  | .str "s" => pure .s
  | _ => throw "bad esc"

def jItem (j : Json) : Except String CItem :=
  match j with
  | .arr #[.str "c", c] => do pure (.ch (← jChar c))
  | .arr #[.str "r", a, b] => do pure (.range (← jChar a) (← jChar b))
  | .arr #[.str "e", k] => do pure (.esc (← jEsc k))
  | _ => throw "bad class item"

def jBool (j : Json) : Except String Bool := fromJson? j

partial def jRx (j : Json) : Except String Rx :=
  match j with
  | .arr #[.str "eps"] => pure .eps
  | .arr #[.str "any"] => pure .any
  | .arr #[.str "chr", c] => do pure (.chr (← jChar c))
  | .arr #[.str "set", n, .arr items] => do pure (.set (← jBool n) (← items.toList.mapM jItem))
  | .arr #[.str "esc", k, n] => do pure (.esc (← jEsc k) (← jBool n))
  | .arr #[.str "seq", a, b] => do pure (.seq (← jRx a) (← jRx b))
  | .arr #[.str "alt", a, b] => do pure (.alt (← jRx a) (← jRx b))
  | .arr #[.str "rep", g, m, n, r] => do
    let mx : Option Nat ← (match n with | .null => pure none | n => do let k : Nat ← fromJson? n; pure (some k))
    let mn : Nat ← fromJson? m
    pure (.rep (← jBool g) mn mx (← jRx r))
  | _ => throw "bad rx"

def jAtom (j : Json) : Except String Atom :=
  match j with
  | .arr #[.str "s", t] => do pure (.str (← jText t))
  | .arr #[.str "o", t] => do pure (.other (← jText t))
  | .arr #[.str "b", b] => do
    let bs : List Nat ← fromJson? b
    pure (.bytes (bs.map UInt8.ofNat))
  | .arr #[.str "i", .str s] =>
    match s.toInt? with
    | some i => pure (.int i)
    | none => throw "bad int"
  | _ => throw "bad atom"

def jAtoms (j : Json) : Except String (List Atom) :=
  match j with
  | .arr xs => xs.toList.mapM jAtom
  | _ => throw "bad atoms"

def jKVal (j : Json) : Except String KVal :=
  match j with
  | .arr #[.str "one", a] => do pure (.one (← jAtom a))
  | .arr #[.str "many", xs] => do pure (.many (← jAtoms xs))
  | _ => throw "bad value"

def valJson : Val → List Json
  | .str s => [Json.str "s", tJson s]
  | .segs xs => [Json.str "t", Json.arr (xs.map tJson).toArray]

def envJson (e : Env) : Json := Json.arr (e.map fun (n, v) => Json.arr (tJson n :: valJson v).toArray).toArray

def optJson {α} (f : α → Json) : Option α → Json
  | some x => f x
  | none => Json.null

def resJson : Except Err Text → Json
  | .ok t => Json.mkObj [("ok", tJson t)]
  | .error .keyError => Json.mkObj [("err", Json.str "keyerror")]
  | .error .unicodeDecode => Json.mkObj [("err", Json.str "unicodedecode")]
  | .error .format => Json.mkObj [("err", Json.str "format")]
  | .error .outside => Json.mkObj [("err", Json.str "outside")]

def toksOkD : List Tok → Bool
  | [] => true
  | .ph _ rx :: ts => Rx.ok rx && toksOkD ts
  | _ :: ts => toksOkD ts

def main : IO Unit := jsonDriver fun j => do
  if let .ok (Json.str "quote") := j.getObjVal? "op" then
    let safe : List Nat ← getAs j "safe"
    let t ← jText (← getField j "text")
    return Json.mkObj [("quoted", tJson (Pct.quote (safe.map UInt8.ofNat) t))]
  let uj ← getField j "ucd"
  let u : Ucd := ⟨← jText (← getField uj "word"), ← jText (← getField uj "digit"), ← jText (← getField uj "space")⟩
  let rxs ← match (← getField j "rxlib") with
    | .arr xs => xs.toList.mapM jRx
    | _ => throw "bad rxlib"
  let lib := mkLib rxs
  let pattern ← jText (← getField j "pattern")
  let kw : Kw ← match (← getField j "kw") with
    | .arr xs => xs.toList.mapM fun x =>
        match x with
        | .arr #[k, v] => do pure ((← jText k), (← jKVal v))
        | _ => throw "bad kw entry"
    | _ => throw "bad kw"
  let elems ← jAtoms (← getField j "elems")
  let script ← jText (← getField j "script")
  let origin ← jText (← getField j "origin")
  let qs : Text ← match (← getField j "query") with
    | .null => pure []
    | q => do pure (Url.qsOf (.str (← jText q)))
  let frag : Text ← match (← getField j "anchor") with
    | .null => pure []
    | a => do pure (Url.fragOf (← jText a))
  match compileRoute u lib pattern with
  | .error .reError => return Json.mkObj [("compile", Json.str "reerror")]
  | .error .unsupported => return Json.mkObj [("compile", Json.str "unsupported")]
  | .ok toks =>
    if !toksOkD toks then return Json.mkObj [("compile", Json.str "unsupported")]
    let history : List (List Atom) ← match j.getObjVal? "history" with
      | .ok (.arr hs) => hs.toList.mapM jAtoms
      | _ => pure []
    let gen := generate toks kw
    -- equal to `routePath` / `routeUrl` for every history (proved: `element_cache_transparent`); computed through the cache model
    let cache := cacheAfter toks kw [] history
    let path := assembleMemo cache (quotedScript script) toks elems kw qs frag
    let url := assembleMemo cache (origin ++ quotedScript script) toks elems kw qs frag
    let pure0 := routePath script toks elems kw qs frag
    let target : Option Text := match path with | .ok t => some t | .error _ => none
    let pathinfo := target.bind fun t => wsgiPathInfo (Trav.utf8Enc script) (targetPath t)
    let decoded := pathinfo.bind fun b => requestPath (some b)
    let mtch := target.bind fun t => requestMatch u toks script t
    return Json.mkObj [
      ("compile", Json.str "ok"),
      ("template", tJson (genTemplate toks)),
      ("gen", resJson gen), ("closed", resJson (generateClosed toks kw)),
      ("path", resJson path), ("url", resJson url), ("path_nocache", resJson pure0),
      ("pathinfo", optJson (fun (b : Trav.Bytes) => toJson (b.map UInt8.toNat)) pathinfo),
      ("decoded", optJson tJson decoded),
      ("match", optJson envJson mtch),
      ("expect", optJson envJson (expectEnv kw toks)),
      ("intended", optJson tJson (intended kw toks)),
      ("admissible", toJson (decide (Admissible toks kw)))]
