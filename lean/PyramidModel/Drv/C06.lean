-- driver stub for C06 (replaced when the model is built)
def main : IO Unit := pure ()
