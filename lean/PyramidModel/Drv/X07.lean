import PyramidModel.Prelude
import PyramidModel.Mount
import PyramidModel.Lemmas.MountSpec
/-! Driver for X07: one JSON case per line.  Text t = list of code points; OT = null | t.
in : {"op":"direct","sn":OT,"pi":OT,"sp": null | [t,…]}            call_app_with_subpath_as_path_info(request, app)
     {"op":"route","kind":"wsgiapp"|"wsgiapp2","pre":t,"sn":OT,"pi":OT}     Router, route pre*subpath, mounted view
     {"op":"trav","kind":…,"vn":t,"tree":T,"sn":OT,"pi":OT}          Router, traversal of T, mounted view named vn
                                                                     T = {"g":bool,"k":[[t,T],…]}
     {"op":"nested","pre1":t,"pre2":t,"sn":OT,"pi":OT}               wsgiapp2 under pre1*subpath mounting a Pyramid
                                                                     application that mounts under pre2*subpath
out: R    = {"ok":[OT,OT]} | {"err":E}        E = "UnicodeDecodeError" | "UnicodeEncodeError" | "URLDecodeError"
     direct {"res":R,"spec":R,"again": null | R}      again = the rewrite applied once more to its own result, same subpath
     route  {"err":E} | {"match":false} | {"match":true,"sp":[t…],"res":R}
     trav   {"err":E} | {"view":t,"ctx":[t…],"sp":[t…],"res": null | R}
     nested {"err":E} | {"match":false} | {"match":true,"sp":[t…],"res":{"err":E}}
            | {"match":true,"sp":[t…],"res":{"ok":[OT,OT]},"inner": <route output>} -/
open Pyr Pyr.Mount Lean

namespace DrvX07

def textOf (j : Json) : Except String Text := do
  let cs : List Nat ← fromJson? j
  if cs.all Nat.isValidChar then pure (cs.map Char.ofNat) else throw "not a scalar value"

def optTextOf (j : Json) : Except String (Option Text) :=
  match j with
  | .null => pure none
  | _ => some <$> textOf j

def jText (t : Text) : Json := toJson (t.map Char.toNat)

def jOptText : Option Text → Json
  | none => Json.null
  | some t => jText t

def jTexts (ts : List Text) : Json := Json.arr (ts.map jText).toArray

def arrOf (j : Json) : Except String (List Json) :=
  match j with
  | .arr xs => pure xs.toList
  | _ => throw "expected a list"

def envOf (j : Json) : Except String Env := do
  pure { scriptName := ← optTextOf (← getField j "sn"), pathInfo := ← optTextOf (← getField j "pi") }

def jErr : Err → Json
  | .unicodeDecode => "UnicodeDecodeError"
  | .unicodeEncode => "UnicodeEncodeError"
  | .urlDecode => "URLDecodeError"

def jRes : Except Err Env → Json
  | .error e => Json.mkObj [("err", jErr e)]
  | .ok e => Json.mkObj [("ok", Json.arr #[jOptText e.scriptName, jOptText e.pathInfo])]

def kindOf (j : Json) : Except String Kind := do
  let k : String ← getAs j "kind"
  if k = "wsgiapp" then pure .plain else if k = "wsgiapp2" then pure .fixup else throw "bad kind"

partial def treeOf (j : Json) : Except String Trav.Tree := do
  let g : Bool ← getAs j "g"
  let ks ← arrOf (← getField j "k")
  let kids ← ks.mapM fun p =>
    match p with
    | .arr #[a, b] => do pure (← textOf a, ← treeOf b)
    | _ => throw "bad child"
  pure (.mk g kids)

def jRoute : Except Err RouteOut → Json
  | .error e => Json.mkObj [("err", jErr e)]
  | .ok none => Json.mkObj [("match", false)]
  | .ok (some (sp, r)) => Json.mkObj [("match", true), ("sp", jTexts sp), ("res", jRes r)]

def run (j : Json) : Except String Json := do
  let op : String ← getAs j "op"
  let e ← envOf j
  match op with
  | "direct" =>
    let sp : List Text ←
      match ← getField j "sp" with
      | .null => pure []
      | x => (← arrOf x).mapM textOf
    let again : Json :=
      match rewrite e sp with
      | .ok e1 => jRes (rewrite e1 sp)
      | .error _ => Json.null
    pure (Json.mkObj [("res", jRes (rewrite e sp)), ("spec", jRes (specRewrite e sp)), ("again", again)])
  | "route" =>
    let k ← kindOf j
    let pre ← textOf (← getField j "pre")
    pure (jRoute (viaRoute k pre e))
  | "trav" =>
    let k ← kindOf j
    let vn ← textOf (← getField j "vn")
    let tree ← treeOf (← getField j "tree")
    match viaTraversal k tree vn e with
    | .error err => pure (Json.mkObj [("err", jErr err)])
    | .ok (r, res) =>
      pure (Json.mkObj [("view", jText r.viewName), ("ctx", jTexts r.context), ("sp", jTexts r.subpath),
                        ("res", match res with | none => Json.null | some x => jRes x)])
  | "nested" =>
    let pre1 ← textOf (← getField j "pre1")
    let pre2 ← textOf (← getField j "pre2")
    match viaNested pre1 pre2 e with
    | .error err => pure (Json.mkObj [("err", jErr err)])
    | .ok none => pure (Json.mkObj [("match", false)])
    | .ok (some (sp, .error err)) =>
      pure (Json.mkObj [("match", true), ("sp", jTexts sp), ("res", jRes (.error err))])
    | .ok (some (sp, .ok (e1, inner))) =>
      pure (Json.mkObj [("match", true), ("sp", jTexts sp), ("res", jRes (.ok e1)), ("inner", jRoute inner)])
  | _ => throw s!"unknown op {op}"

end DrvX07

def main : IO Unit := Pyr.jsonDriver DrvX07.run
