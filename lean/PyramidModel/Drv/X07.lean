-- stub driver, replaced by the builder of X07
def main : IO Unit := pure ()
