import PyramidModel.Prelude
import PyramidModel.Lemmas.StaticSpec
import PyramidModel.Lemmas.StaticOv
import PyramidModel.StaticUrl
/-! Driver for C16: one JSON case per line, stateful (the file-system listing is set by an `fs` line).
Texts travel as lists of code points.
in : {"op":"fs","entries":[[path,isdir(bool),size],…]}                         → {"ok":n}
     {"op":"np","a":t,"b":t}                                                   → {"join":t,"norm":t,"normb":t}
     {"op":"secure","tuple":[t,…]}                                             → {"secure":t|null}
     {"op":"req","mount":"sub"|"plain"|"direct","pkg":b,"base":t,"docroot":t,"index":t,
      "encs":[[enc,[ext,…]],…],"ae":null|[enc,…],"prefix":t,"path":[byte,…],"tuple":[t,…],"slash":b}
                                                                               → {"model":O,"spec":O,"tuple":…,"under":b}
     O = {"out":"urldecode"|"notfound"|"redirect"|"isdir"|"file","path":t|null,"enc":s|null,"vary":b}
     {"op":"su","adds":[[name,spec],…],"prefix":t|null,"busters":[[spec,"q"|"m",explicit,param,token,[[k,v],…]],…],
      "raw":[[pathspec,rawspec],…],"path":t,"static_path":b,"script_name":t,
      "query":null|{"dict":b,"pairs":[[k,v],…]}|{"str":t}|{"null":true},"anchor":t|null}
        → {"url":t|null,"err":s|null,"regs":[[url|null,spec,route],…],"busters":[[spec,explicit],…],"routes":[[name,lit],…]}
-/
open Pyr Pyr.Static Lean

abbrev Entries := List (Text × Bool × Nat)

def txt (ns : List Nat) : Text := ns.map Char.ofNat
def cod (t : Text) : Json := toJson (t.map Char.toNat)

def getTxt (j : Json) (k : String) : Except String Text := do
  let ns : List Nat ← getAs j k
  pure (txt ns)

/-- what `os.stat` finds for a path string in a listing of normalised absolute paths: trailing slashes are
ignored for directories and make a regular file disappear -/
def osLookup (es : Entries) (p : Text) : Option (Bool × Nat) :=
  let q := rstripSlash p
  let q := if q = [] ∧ p ≠ [] then ['/'] else q
  match es.lookup q with
  | some (d, n) => if !d ∧ q ≠ p then none else some (d, n)
  | none => none

def fsOf (es : Entries) : Fs :=
  { isDir := fun p => match osLookup es p with | some (d, _) => d | none => false
    isThere := fun p => (osLookup es p).isSome
    size := fun p => match osLookup es p with | some (_, n) => n | none => 0 }

def outJson : Outcome → Json
  | .urlDecodeError => Json.mkObj [("out", "urldecode")]
  | .notFound => Json.mkObj [("out", "notfound")]
  | .redirect => Json.mkObj [("out", "redirect")]
  | .isADirectory p => Json.mkObj [("out", "isdir"), ("path", cod p)]
  | .file p e v => Json.mkObj [("out", "file"), ("path", cod p),
      ("enc", match e with | some s => Json.str s | none => Json.null), ("vary", toJson v)]

def parseEncs (j : Json) : Except String (List (Enc × List Text)) :=
  match j with
  | .arr xs => xs.toList.mapM fun x =>
    match x with
    | .arr #[e, exts] => do
      let en : String ← fromJson? e
      let ex : List (List Nat) ← fromJson? exts
      pure (en, ex.map txt)
    | _ => throw "bad enc entry"
  | _ => throw "bad encs"

def ot (j : Json) : Except String (Option Text) :=
  match j with
  | .null => pure none
  | j => do
    let ns : List Nat ← fromJson? j
    pure (some (txt ns))

def tOf (j : Json) : Except String Text := do
  let ns : List Nat ← fromJson? j
  pure (txt ns)

def jarr (j : Json) : Except String (List Json) :=
  match j with
  | .arr xs => pure xs.toList
  | _ => throw "array expected"

def parsePairsT (j : Json) : Except String (List (Text × Text)) := do
  (← jarr j).mapM fun p =>
    match p with
    | .arr #[k, v] => do pure ((← tOf k), (← tOf v))
    | _ => throw "pair expected"

/-- executable form of the extended containment: strictly inside the root, or inside / equal to what an override was
declared with -/
def inDeclared (w : OvView) (p : Text) : Bool :=
  underB (if w.v.pkg then pkgRoot w.v else w.v.docroot) p ||
  w.ovs.any fun o => p == o.src.osPath [] || underB o.src.home p

def staticUrlOp (j : Json) : Except String Json := do
  let adds ← parsePairsT (← getField j "adds")
  let pfx ← ot (← getField j "prefix")
  let bsj ← jarr (← getField j "busters")
  let bs ← bsj.foldlM (fun (acc : List StaticUrl.BusterReg) b =>
    match b with
    | .arr #[sp, .str kind, .bool ex, pa, tk, mp] => do
      let cb : StaticUrl.Buster ← if kind = "q" then do pure (StaticUrl.Buster.query (← tOf pa) (← tOf tk))
        else do pure (StaticUrl.Buster.manifest (← parsePairsT mp))
      pure (StaticUrl.addCacheBuster acc (← tOf sp) cb ex)
    | _ => throw "bad buster") []
  let raw ← parsePairsT (← getField j "raw")
  let path ← getTxt j "path"
  let sp : Bool ← getAs j "static_path"
  let script ← getTxt j "script_name"
  let qj ← getField j "query"
  let (q, isDict) : Url.Query × Bool ← match qj with
    | .null => pure (Url.Query.absent, false)
    | qj =>
      match qj.getObjVal? "pairs" with
      | .ok pj => do
        let d : Bool ← getAs qj "dict"
        let ps ← parsePairsT pj
        pure (Url.Query.pairs (ps.map fun p => (p.1, Url.QVal.one p.2)), d)
      | .error _ =>
        match qj.getObjVal? "str" with
        | .ok sj => do pure (Url.Query.str (← tOf sj), false)
        | .error _ => pure (Url.Query.null, false)
  let anchor ← ot (← getField j "anchor")
  let e : Url.Env := ⟨"http".toList, some "localhost:80".toList, "localhost".toList, "80".toList, script⟩
  let regs := StaticUrl.registerAll pfx adds
  let routes := StaticUrl.routesOf pfx adds
  let o : Url.Ovr := { query := q, anchor := anchor.getD [] }
  let o := if sp then { o with appUrl := some (Url.quotedScriptName e) } else o
  let r := StaticUrl.generate e routes regs bs (fun p => raw.lookup p) path o isDict
  let tagOf : Url.Err → String
    | .keyError => "keyerror" | .noStatic => "nostatic" | .noCurrentRoute => "nocurrent" | .outside => "outside"
  pure (Json.mkObj [
    ("url", match r with | .ok u => cod u | .error _ => Json.null),
    ("err", match r with | .ok _ => Json.null | .error er => Json.str (tagOf er)),
    ("regs", Json.arr (regs.map fun r => Json.arr #[(match r.url with | some u => cod u | none => Json.null), cod r.spec, cod r.routeName]).toArray),
    ("busters", Json.arr (bs.map fun b => Json.arr #[cod b.spec, Json.bool b.explicit]).toArray),
    ("routes", Json.arr (routes.map fun r => Json.arr #[cod r.1,
      (match r.2 with | Url.Piece.lit l :: _ => cod l | _ => Json.null)]).toArray)])

def step (es : Entries) (j : Json) : Except String (Entries × Json) := do
  let op : String ← getAs j "op"
  match op with
  | "fs" =>
    let ej ← getField j "entries"
    match ej with
    | .arr xs =>
      let es' ← xs.toList.mapM fun x =>
        match x with
        | .arr #[p, d, n] => do
          let pn : List Nat ← fromJson? p
          let db : Bool ← fromJson? d
          let nn : Nat ← fromJson? n
          pure (txt pn, db, nn)
        | _ => throw "bad entry"
      pure (es', Json.mkObj [("ok", toJson es'.length)])
    | _ => throw "bad entries"
  | "su" => do
    pure (es, (← staticUrlOp j))
  | "np" =>
    let a ← getTxt j "a"
    let b ← getTxt j "b"
    pure (es, Json.mkObj [("join", cod (pjoin a b)), ("norm", cod (normpath (pjoin a b))), ("normb", cod (normpath b))])
  | "secure" =>
    let t : List (List Nat) ← getAs j "tuple"
    pure (es, Json.mkObj [("secure", match securePath (t.map txt) with | some p => cod p | none => Json.null)])
  | "req" =>
    let mount : String ← getAs j "mount"
    let pkg : Bool ← getAs j "pkg"
    let base ← getTxt j "base"
    let docroot ← getTxt j "docroot"
    let index ← getTxt j "index"
    let encs ← parseEncs (← getField j "encs")
    let aej ← getField j "ae"
    let ae : Option (List Enc) ← match aej with
      | .null => pure none
      | x => do
        let l : List String ← fromJson? x
        pure (some l)
    let v : View := { pkg := pkg, base := base, docroot := docroot, index := index, encs := encs }
    -- asset overrides declared for the view's package, most recent first: [[path, "fs"|"pkg", base, prefix], …]
    let ovs : List Override ← match j.getObjVal? "ovs" with
      | .ok (.arr xs) => xs.toList.mapM fun x =>
        match x with
        | .arr #[pa, .str kind, ba, pf] => do
          let path ← tOf pa
          let b ← tOf ba
          let pfx ← tOf pf
          pure { path := path, src := if kind = "fs" then Source.fs pfx else Source.pkg b pfx }
        | _ => throw "bad override"
      | _ => pure []
    let w : OvView := { v := v, ovs := ovs }
    let fs := fsOf es
    match mount with
    | "direct" =>
      let t : List (List Nat) ← getAs j "tuple"
      let segs := t.map txt
      let slash : Bool ← getAs j "slash"
      let m := staticViewOv fs w ae slash segs
      let under := match m with | .file p _ _ => inDeclared w p | _ => true
      pure (es, Json.mkObj [("model", outJson m), ("spec", if ovs.isEmpty && (!pkg || rstripSlash docroot != []) then outJson (specView fs v ae slash segs) else outJson m),
        ("tuple", toJson (segs.map fun s => s.map Char.toNat)), ("under", toJson under)])
    | _ =>
      let pb : List Nat ← getAs j "path"
      let wsgi : Trav.Bytes := pb.map UInt8.ofNat
      let pfx ← getTxt j "prefix"
      let m := if mount = "sub" then serveSubOv fs w ae pfx wsgi else servePlainOv fs w ae wsgi
      -- the tuple the view sees, and the spec outcome for it (when the request reaches the view)
      let (tup, spec) : Option (List Trav.Seg) × Outcome :=
        match Trav.decodePathInfo wsgi with
        | none => (none, .urlDecodeError)
        | some t =>
          if mount = "sub" then
            match routeRemainder pfx (if t = [] then ['/'] else t) with
            | none => (none, .notFound)
            | some rest => (some (Trav.splitPathInfo rest), specView fs v ae (endsWithSlash t) (Trav.splitPathInfo rest))
          else if traversalReaches (Trav.splitPathInfo (if t = [] then ['/'] else t)) then
            (some (Trav.splitPathInfo t), specView fs v ae (endsWithSlash t) (Trav.splitPathInfo t))
          else (none, .notFound)
      let under := match m with | .file p _ _ => inDeclared w p | _ => true
      let spec := if ovs.isEmpty && (!pkg || rstripSlash docroot != []) then spec else m
      pure (es, Json.mkObj [("model", outJson m), ("spec", outJson spec),
        ("tuple", match tup with | some s => toJson (s.map fun x => x.map Char.toNat) | none => Json.null),
        ("under", toJson under)])
  | _ => throw s!"bad op {op}"

def main : IO Unit := jsonDriverSt ([] : Entries) step
