import PyramidModel.Prelude
import PyramidModel.Lemmas.StaticSpec
/-! Driver for C16: one JSON case per line, stateful (the file-system listing is set by an `fs` line).
Texts travel as lists of code points.
in : {"op":"fs","entries":[[path,isdir(bool),size],…]}                         → {"ok":n}
     {"op":"np","a":t,"b":t}                                                   → {"join":t,"norm":t,"normb":t}
     {"op":"secure","tuple":[t,…]}                                             → {"secure":t|null}
     {"op":"req","mount":"sub"|"plain"|"direct","pkg":b,"base":t,"docroot":t,"index":t,
      "encs":[[enc,[ext,…]],…],"ae":null|[enc,…],"prefix":t,"path":[byte,…],"tuple":[t,…],"slash":b}
                                                                               → {"model":O,"spec":O,"tuple":…,"under":b}
     O = {"out":"urldecode"|"notfound"|"redirect"|"isdir"|"file","path":t|null,"enc":s|null,"vary":b}
-/
open Pyr Pyr.Static Lean

abbrev Entries := List (Text × Bool × Nat)

def txt (ns : List Nat) : Text := ns.map Char.ofNat
def cod (t : Text) : Json := toJson (t.map Char.toNat)

def getTxt (j : Json) (k : String) : Except String Text := do
  let ns : List Nat ← getAs j k
  pure (txt ns)

/-- what `os.stat` finds for a path string in a listing of normalised absolute paths: trailing slashes are
ignored for directories and make a regular file disappear -/
def osLookup (es : Entries) (p : Text) : Option (Bool × Nat) :=
  let q := rstripSlash p
  let q := if q = [] ∧ p ≠ [] then ['/'] else q
  match es.lookup q with
  | some (d, n) => if !d ∧ q ≠ p then none else some (d, n)
  | none => none

def fsOf (es : Entries) : Fs :=
  { isDir := fun p => match osLookup es p with | some (d, _) => d | none => false
    isThere := fun p => (osLookup es p).isSome
    size := fun p => match osLookup es p with | some (_, n) => n | none => 0 }

def outJson : Outcome → Json
  | .urlDecodeError => Json.mkObj [("out", "urldecode")]
  | .notFound => Json.mkObj [("out", "notfound")]
  | .redirect => Json.mkObj [("out", "redirect")]
  | .isADirectory p => Json.mkObj [("out", "isdir"), ("path", cod p)]
  | .file p e v => Json.mkObj [("out", "file"), ("path", cod p),
      ("enc", match e with | some s => Json.str s | none => Json.null), ("vary", toJson v)]

def parseEncs (j : Json) : Except String (List (Enc × List Text)) :=
  match j with
  | .arr xs => xs.toList.mapM fun x =>
    match x with
    | .arr #[e, exts] => do
      let en : String ← fromJson? e
      let ex : List (List Nat) ← fromJson? exts
      pure (en, ex.map txt)
    | _ => throw "bad enc entry"
  | _ => throw "bad encs"

def step (es : Entries) (j : Json) : Except String (Entries × Json) := do
  let op : String ← getAs j "op"
  match op with
  | "fs" =>
    let ej ← getField j "entries"
    match ej with
    | .arr xs =>
      let es' ← xs.toList.mapM fun x =>
        match x with
        | .arr #[p, d, n] => do
          let pn : List Nat ← fromJson? p
          let db : Bool ← fromJson? d
          let nn : Nat ← fromJson? n
          pure (txt pn, db, nn)
        | _ => throw "bad entry"
      pure (es', Json.mkObj [("ok", toJson es'.length)])
    | _ => throw "bad entries"
  | "np" =>
    let a ← getTxt j "a"
    let b ← getTxt j "b"
    pure (es, Json.mkObj [("join", cod (pjoin a b)), ("norm", cod (normpath (pjoin a b))), ("normb", cod (normpath b))])
  | "secure" =>
    let t : List (List Nat) ← getAs j "tuple"
    pure (es, Json.mkObj [("secure", match securePath (t.map txt) with | some p => cod p | none => Json.null)])
  | "req" =>
    let mount : String ← getAs j "mount"
    let pkg : Bool ← getAs j "pkg"
    let base ← getTxt j "base"
    let docroot ← getTxt j "docroot"
    let index ← getTxt j "index"
    let encs ← parseEncs (← getField j "encs")
    let aej ← getField j "ae"
    let ae : Option (List Enc) ← match aej with
      | .null => pure none
      | x => do
        let l : List String ← fromJson? x
        pure (some l)
    let v : View := { pkg := pkg, base := base, docroot := docroot, index := index, encs := encs }
    let fs := fsOf es
    match mount with
    | "direct" =>
      let t : List (List Nat) ← getAs j "tuple"
      let segs := t.map txt
      let slash : Bool ← getAs j "slash"
      let m := serveDirect fs v ae slash segs
      let under := match m with | .file p _ _ => underB (rootOf v) p | _ => true
      pure (es, Json.mkObj [("model", outJson m), ("spec", outJson (specView fs v ae slash segs)),
        ("tuple", toJson (segs.map fun s => s.map Char.toNat)), ("under", toJson under)])
    | _ =>
      let pb : List Nat ← getAs j "path"
      let wsgi : Trav.Bytes := pb.map UInt8.ofNat
      let pfx ← getTxt j "prefix"
      let m := if mount = "sub" then serveSub fs v ae pfx wsgi else servePlain fs v ae wsgi
      -- the tuple the view sees, and the spec outcome for it (when the request reaches the view)
      let (tup, spec) : Option (List Trav.Seg) × Outcome :=
        match Trav.decodePathInfo wsgi with
        | none => (none, .urlDecodeError)
        | some t =>
          if mount = "sub" then
            match routeRemainder pfx (if t = [] then ['/'] else t) with
            | none => (none, .notFound)
            | some rest => (some (Trav.splitPathInfo rest), specView fs v ae (endsWithSlash t) (Trav.splitPathInfo rest))
          else if traversalReaches (Trav.splitPathInfo (if t = [] then ['/'] else t)) then
            (some (Trav.splitPathInfo t), specView fs v ae (endsWithSlash t) (Trav.splitPathInfo t))
          else (none, .notFound)
      let under := match m with | .file p _ _ => underB (rootOf v) p | _ => true
      pure (es, Json.mkObj [("model", outJson m), ("spec", outJson spec),
        ("tuple", match tup with | some s => toJson (s.map fun x => x.map Char.toNat) | none => Json.null),
        ("under", toJson under)])
  | _ => throw s!"bad op {op}"

def main : IO Unit := jsonDriverSt ([] : Entries) step
