-- driver stub for C16 (replaced when the model is built)
def main : IO Unit := pure ()
