import PyramidModel.Prelude
import PyramidModel.Url
/-! Driver for C17: one JSON case per line.  Texts come in as JSON strings and go out as lists of code points
(the harness reads the reply with `splitlines`, which would break on U+2028 & co inside a raw string).

ops
* `url`       a helper call: env, routes, statics, helper name, arguments → the URL (or an error tag) and, computed
              by the model's copy of the standard parser on that URL, the split / decoded elements / decoded query
              pairs / decoded anchor / the URL minus scheme and authority / the wanted (scheme, host, port)
* `quote`, `quote_plus`, `urlencode`                      the encoders alone
* `urlsplit`, `parse_qsl`, `unquote`, `unquote_plus`, `bracket` (`_check_bracketed_host`)   the standard parser alone -/
open Pyr Pyr.Trav Pyr.Pct Pyr.Url Lean

def jt (t : Text) : Json := toJson (t.map Char.toNat)
def jot : Option Text → Json
  | some t => jt t
  | none => Json.null

def txt (j : Json) : Except String Text := do
  let s : String ← fromJson? j
  pure s.toList

def otxt (j : Json) : Except String (Option Text) :=
  match j with
  | .null => pure none
  | j => do pure (some (← txt j))

def fieldT (j : Json) (k : String) : Except String Text := do txt (← getField j k)
def fieldOT (j : Json) (k : String) : Except String (Option Text) :=
  match j.getObjVal? k with
  | .ok v => otxt v
  | .error _ => pure none

def arr (j : Json) : Except String (List Json) :=
  match j with
  | .arr xs => pure xs.toList
  | _ => throw "array expected"

def parseQVal (j : Json) : Except String QVal :=
  match j with
  | .null => pure .none
  | .arr xs => do pure (.many (← xs.toList.mapM txt))
  | j => do pure (.one (← txt j))

def parsePairs (j : Json) : Except String (List (Text × QVal)) := do
  (← arr j).mapM fun p => do
    match p with
    | .arr #[k, v] => pure ((← txt k), (← parseQVal v))
    | _ => throw "pair expected"

def parseQuery (j : Json) : Except String Query :=
  match j with
  | .null => pure .absent
  | j => do
    let t : String ← getAs j "t"
    match t with
    | "null" => pure .null
    | "str" => do pure (.str (← fieldT j "v"))
    | "pairs" => do
      let tr : Bool := match j.getObjVal? "truthy" with
        | .ok (.bool b) => b
        | _ => false
      pure (.pairs (← parsePairs (← getField j "v")) tr)
    | _ => throw "bad query tag"

def parseRVal (j : Json) : Except String RVal :=
  match j with
  | .arr xs => do pure (.many (← xs.toList.mapM txt))
  | j => do pure (.one (← txt j))

def parseKw (j : Json) : Except String Kw := do
  (← arr j).mapM fun p => do
    match p with
    | .arr #[k, v] => pure ((← txt k), (← parseRVal v))
    | _ => throw "kw pair expected"

def parsePiece (j : Json) : Except String Piece := do
  match j with
  | .arr #[.str "l", t] => pure (.lit (← txt t))
  | .arr #[.str "p", t] => pure (.ph (← txt t))
  | .arr #[.str "s", t] => pure (.star (← txt t))
  | _ => throw "bad piece"

def parseRoutes (j : Json) : Except String Routes := do
  (← arr j).mapM fun r => do
    match r with
    | .arr #[n, ps] => pure ((← txt n), (← (← arr ps).mapM parsePiece))
    | _ => throw "bad route"

def parseStatics (j : Json) : Except String (List StaticReg) := do
  (← arr j).mapM fun r => do
    match r with
    | .arr #[u, s, n] => pure ⟨(← otxt u), (← txt s), (← txt n)⟩
    | _ => throw "bad static registration"

def parseEnv (j : Json) : Except String Env := do
  pure ⟨(← fieldT j "scheme"), (← fieldOT j "host"), (← fieldT j "server_name"), (← fieldT j "server_port"),
        (← fieldT j "script_name")⟩

def parseOvr (j : Json) : Except String Ovr := do
  let q ← match j.getObjVal? "query" with
    | .ok v => parseQuery v
    | .error _ => pure Query.absent
  let a ← fieldOT j "anchor"
  let tr : Bool := match j.getObjVal? "anchor_truthy" with
    | .ok (.bool b) => b
    | _ => false
  pure ⟨(← fieldOT j "app_url"), (← fieldOT j "scheme"), (← fieldOT j "host"), (← fieldOT j "port"), q, a.getD [], tr⟩

def errTag : Url.Err → String
  | .keyError => "keyerror"
  | .noStatic => "nostatic"
  | .noCurrentRoute => "nocurrent"
  | .outside => "outside"

def splitJson (s : Split) : Json :=
  Json.mkObj [("scheme", jt s.scheme), ("netloc", jt s.netloc), ("path", jt s.path), ("query", jt s.query),
              ("fragment", jt s.fragment)]

def pairsJson (ps : List (Text × Text)) : Json := Json.arr (ps.map fun p => Json.arr #[jt p.1, jt p.2]).toArray

def listStr (j : Json) : Except String (List Text) := do (← arr j).mapM txt

def runUrl (j : Json) : Except String Json := do
  let helper : String ← getAs j "helper"
  let e ← parseEnv (← getField j "env")
  let routes ← parseRoutes (← getField j "routes")
  let statics ← match j.getObjVal? "statics" with
    | .ok v => parseStatics v
    | .error _ => pure []
  let o ← parseOvr (← getField j "ovr")
  let elems ← match j.getObjVal? "elements" with
    | .ok v => listStr v
    | .error _ => pure []
  let kw ← match j.getObjVal? "kw" with
    | .ok v => parseKw v
    | .error _ => pure []
  let route ← fieldOT j "route"
  let path ← fieldOT j "path"
  let names ← match j.getObjVal? "resource" with
    | .ok v => listStr v
    | .error _ => pure []
  let rr : Option ResRoute ← match j.getObjVal? "res_route" with
    | .ok .null => pure none
    | .ok v => do pure (some ⟨(← fieldT v "route"), (← fieldT v "rem"), (← parseKw (← getField v "kw"))⟩)
    | .error _ => pure none
  let cur : Cur ← match j.getObjVal? "cur" with
    | .ok .null => pure ⟨none, [], []⟩
    | .ok v => do
      let gp ← (← arr (← getField v "get")).mapM fun p => do
        match p with
        | .arr #[k, x] => pure ((← txt k), (← txt x))
        | _ => throw "get pair expected"
      pure ⟨(← fieldOT v "matched"), (← parseKw (← getField v "matchdict")), gp⟩
    | .error _ => pure ⟨none, [], []⟩
  let curName : Option Text ← match j.getObjVal? "cur" with
    | .ok .null => pure none
    | .ok v => fieldOT v "route_name"
    | .error _ => pure none
  let r : Except Url.Err Text ← match helper with
    | "route_url" => pure (routeUrl e routes (route.getD []) elems kw o)
    | "route_path" => pure (routePath e routes (route.getD []) elems kw o)
    | "resource_url" => pure (resourceUrl e routes names elems o rr)
    | "resource_path" => pure (resourcePath e routes names elems o rr)
    | "static_url" => pure (staticUrl e routes statics (path.getD []) o)
    | "static_path" => pure (staticPath e routes statics (path.getD []) o)
    | "current_route_url" => pure (currentRouteUrl e routes cur curName elems kw o)
    | "current_route_path" => pure (currentRoutePath e routes cur curName elems kw o)
    | _ => throw "unknown helper"
  let w := wanted e o.scheme o.host o.port
  let wj := Json.arr #[jt w.1, jt w.2.1, jot w.2.2]
  match r with
  | .error er => pure (Json.mkObj [("err", Json.str (errTag er)), ("wanted", wj)])
  | .ok u =>
    let sp := urlsplit u
    let dec : List (String × Json) := match sp with
      | none => [("split", Json.null)]
      | some s =>
        [("split", splitJson s),
         ("elements", match lastSegments s.path elems.length with
            | some xs => Json.arr (xs.map jt).toArray
            | none => Json.null),
         ("query", match parseQsl s.query with
            | some ps => pairsJson ps
            | none => Json.null),
         ("query_str", jot (unquote s.query)),
         ("anchor", jot (unquote s.fragment))]
    pure (Json.mkObj ([("url", jt u), ("minus", jot (minusAuthority u)), ("wanted", wj)] ++ dec))

def safeOf (j : Json) : Except String (List UInt8) := do
  let s ← fieldT j "safe"
  pure (s.map fun c => UInt8.ofNat c.toNat)

def main : IO Unit := jsonDriver fun j => do
  let op : String ← getAs j "op"
  match op with
  | "url" => runUrl j
  | "quote" => do pure (Json.mkObj [("r", jt (quote (← safeOf j) (← fieldT j "s")))])
  | "quote_plus" => do pure (Json.mkObj [("r", jt (quotePlus (← safeOf j) (← fieldT j "s")))])
  | "urlencode" => do pure (Json.mkObj [("r", jt (urlencode (← parsePairs (← getField j "pairs")))),
                                        ("expand", pairsJson (expand (← parsePairs (← getField j "pairs"))))])
  | "urlsplit" => do
    pure (Json.mkObj [("r", match urlsplit (← fieldT j "s") with
      | some s => splitJson s
      | none => Json.null)])
  | "parse_qsl" => do
    pure (Json.mkObj [("r", match parseQsl (← fieldT j "s") with
      | some ps => pairsJson ps
      | none => Json.null)])
  | "urljoin" => do
    pure (Json.mkObj [("r", match urljoin (← fieldT j "base") (← fieldT j "s") with
      | .ok r => jt r
      | .error _ => Json.str "outside")])
  | "bracket" => do pure (Json.mkObj [("r", toJson (checkBracketedHost (← fieldT j "s")))])
  | "unquote" => do pure (Json.mkObj [("r", jot (unquote (← fieldT j "s")))])
  | "unquote_plus" => do pure (Json.mkObj [("r", jot (unquotePlus (← fieldT j "s")))])
  | _ => throw "unknown op"
