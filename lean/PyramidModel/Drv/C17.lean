-- driver stub for C17 (replaced when the model is built)
def main : IO Unit := pure ()
