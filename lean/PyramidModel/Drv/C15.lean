-- driver stub for C15 (replaced when the model is built)
def main : IO Unit := pure ()
