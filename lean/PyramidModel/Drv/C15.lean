import PyramidModel.Prelude
import PyramidModel.Cache
/-! Driver for C15: one JSON case per line; the machine of `Cache.lean` is run under the deterministic
schedule the harness forces on the real code.

in : {"queries":[[query,key,[slot,…]],…], "regs":[[slot,view],…], "ops":[op,…], "proto":[b,b,b,b,b]?}
     op = {"op":"reg","mods":[[slot,view|null],…]}                      whole registration, no pre-emption
        | {"op":"lookup","q":query,"inject":null|{"at":"probe"|"write"|j,"mods":[…]}}
              one `_find_views` call; a whole registration is injected after the cache reference was read
              ("probe"), before the j-th `registered` call (j = 0,1,…), or when the scan is complete and
              non-empty, just BEFORE `registry._lock` is acquired for the dict write ("write")
        | {"op":"split","mods":[…],"after":m,"qs":[query,…]}
              the registrar is pre-empted after its m-th adapter mutation; the lookups of `keys` run to
              completion there; then the registrar finishes
out: {"ops":[{"res":[[view,…],…], "inj":bool, "cur":[[key,[view,…]],…] (sorted), "coh":bool,
              "before":[[…],…], "after":[[…],…]},…]}
     res/before/after have one entry per lookup of the op (before/after = SPEC scan of the registrations
     before / after the op); coh = every entry of the current dict equals the spec scan of the current
     registrations. -/
open Pyr Pyr.Cache Lean

def parseMods (j : Json) : Except String Mods := do
  match j with
  | .arr xs => xs.toList.mapM fun x => do
      match x with
      | .arr #[s, v] =>
        let sl : Nat ← fromJson? s
        let vv : Option Nat ← (match v with | .null => pure none | v => do let n : Nat ← fromJson? v; pure (some n))
        pure (sl, vv)
      | _ => throw "bad mod"
  | _ => throw "bad mods"

def regsOfList (l : List (Nat × Nat)) : Regs := fun s => (l.find? (·.1 == s)).map (·.2)

def cfgOfList (l : List (Nat × Nat × List Nat)) : Cfg :=
  { ck := fun q => ((l.find? (·.1 == q)).map (·.2.1)).getD 0,
    slots := fun q => ((l.find? (·.1 == q)).map (·.2.2)).getD [] }

def sortDict (d : Dict) : List (Nat × List Nat) := (d.toArray.qsort (fun a b => a.1 < b.1)).toList

def dictJson (d : Dict) : Json := toJson ((sortDict d).map fun e => Json.arr #[toJson e.1, toJson e.2])

def coherentNow (cfg : Cfg) (qs : List Query) (s : St) : Bool :=
  qs.all fun q => match (s.heap s.cur).get (cfg.ck q) with
    | some v => v == scan s.regs (cfg.slots q)
    | none => true

/-- run thread `tid` until it is done or `fuel` steps were made; optionally stop when `stop pc` holds -/
def runThread (P : Proto) (cfg : Cfg) (tid : Nat) (stop : PC → Bool) : Nat → St → St
  | 0, s => s
  | fuel + 1, s =>
    match s.threads[tid]? with
    | some t =>
      match t.pc with
      | .done _ _ => s
      | pc => if stop pc then s else runThread P cfg tid stop fuel (step P cfg s (.thread tid))
    | none => s

def pcOf (s : St) (tid : Nat) : Option PC := (s.threads[tid]?).map (·.pc)

def resOf (s : St) (tid : Nat) : List Nat := (result? s tid).getD []

def main : IO Unit := jsonDriver fun j => do
  let qj ← getField j "queries"
  let ql : List (Nat × Nat × List Nat) ← match qj with
    | .arr xs => xs.toList.mapM fun x => do
        match x with
        | .arr #[a, b, c] =>
          let q : Nat ← fromJson? a
          let k : Nat ← fromJson? b
          let sl : List Nat ← fromJson? c
          pure (q, k, sl)
        | _ => throw "bad query"
    | _ => throw "bad queries"
  let rl : List (Nat × Nat) ← getAs j "regs"
  let cfg := cfgOfList ql
  let slots := cfg.slots
  let P : Proto := match (getAs j "proto" : Except String (List Bool)) with
    | .ok [a, b, c, d, e] => ⟨a, b, c, d, e⟩
    | _ => Proto.good
  let opsJ ← getField j "ops"
  let ops ← match opsJ with
    | .arr xs => pure xs.toList
    | _ => throw "bad ops"
  let mut s : St := init (regsOfList rl)
  let mut outs : Array Json := #[]
  for o in ops do
    let kind : String ← getAs o "op"
    let r0 := s.regs
    let mut res : List (List Nat) := []
    let mut keys : List Nat := []
    let mut inj := false
    if kind == "reg" then
      let mods ← parseMods (← getField o "mods")
      s := run P cfg s (atomicReg mods)
    else if kind == "lookup" then
      let k : Nat ← getAs o "q"
      keys := [k]
      let tid := s.threads.length
      let fuel := (slots k).length + 6
      s := step P cfg s (.spawn k)
      let ij ← getField o "inject"
      match ij with
      | .null => s := runThread P cfg tid (fun _ => false) fuel s
      | ij =>
        let mods ← parseMods (← getField ij "mods")
        let atJ ← getField ij "at"
        -- advance to the injection point
        match atJ with
        | .str "probe" =>
          s := step P cfg s (.thread tid)
          inj := true
        | .str "write" =>
          let atEnd : PC → Bool := fun pc => match pc with
            | .scan _ i acc => i ≥ (slots k).length && !acc.isEmpty
            | _ => false
          s := runThread P cfg tid atEnd fuel s
          inj := match pcOf s tid with | some pc => atEnd pc | none => false
        | a =>
          let jn : Nat ← fromJson? a
          s := runThread P cfg tid (fun pc => match pc with | .scan _ i _ => i == jn | _ => false) fuel s
          inj := match pcOf s tid with
            | some (.scan _ i _) => i == jn && jn < (slots k).length
            | _ => false
        if inj then s := run P cfg s (atomicReg mods)
        s := runThread P cfg tid (fun _ => false) fuel s
      res := [resOf s tid]
    else if kind == "split" then
      let mods ← parseMods (← getField o "mods")
      let m : Nat ← getAs o "after"
      let ks : List Nat ← getAs o "qs"
      keys := ks
      s := step P cfg s (.begin mods)
      s := run P cfg s (List.replicate (min m mods.length) .modify)
      for k in ks do
        let tid := s.threads.length
        s := step P cfg s (.spawn k)
        s := runThread P cfg tid (fun _ => false) ((slots k).length + 6) s
        res := res ++ [resOf s tid]
      s := run P cfg s (List.replicate mods.length .modify ++ [.finish])
      inj := true
    else throw "bad op"
    outs := outs.push (Json.mkObj [
      ("res", toJson res), ("inj", toJson inj), ("cur", dictJson (s.heap s.cur)),
      ("coh", toJson (coherentNow cfg (ql.map (·.1)) s)),
      ("before", toJson (keys.map fun k => scan r0 (slots k))),
      ("after", toJson (keys.map fun k => scan s.regs (slots k)))])
  return Json.mkObj [("ops", Json.arr outs)]
