import PyramidModel.Prelude
import PyramidModel.ViewLookupJson
import PyramidModel.RouterSpec
/-! Driver for X01: one JSON case per line (see `harness/x01.py: model_input`).  Text = list of code points, bytes = list
of 0..255.
in : {"routes":[{"name":T,"pattern":T,"pred":n|null,"factory":n|null,"iface":n,"comb":n,"ugv":b}…],
      "roots":[{"tree":TREE,"sro":[[[T…],[n…]]…],"raises":EXC|null}…], "defroot":n,
      "views":[{C14 statement fields…, "permname":n}…], "world":{C14 world}, "urldecode":EXC, "keyerror":EXC,
      "allowed":[[KEY,perm]…]   KEY = ["res",root,[T…]] | ["exc",[n…]],
      "req":{"path":[b…]|null, "rp":[n…], "base":{C03 request record}}}
     TREE = {"g":bool,"k":[[name,TREE]…]}    EXC = {"id":n,"sro":[n…],"nf":b,"status":n|null}
out: {"model":OUT,"spec":OUT,"wf":b,"coherent":b,"regex":[T…]}
     OUT = {"final":["resp","view",tag]|["resp","self",status|null,class]|["raise",class], "caught":class|null,
            "route":i|null, "md":[[T,"s",T]|[T,"t",[T…]]…]|null, "rsro":[n…], "comb":[n…], "root":i|null,
            "trav":{context,view_name,subpath,traversed}|null, "hooks":[str…]} -/
open Pyr Pyr.Router Lean
open Pyr.ViewLookup.Drv

namespace DrvX01

def textOf (j : Json) : Except String Text := do
  let cs : List Nat ← fromJson? j
  pure (cs.map Char.ofNat)

def textsOf (j : Json) : Except String (List Text) :=
  match j with
  | .arr xs => xs.toList.mapM textOf
  | _ => throw "expected a list of texts"

def jText (t : Text) : Json := toJson (t.map Char.toNat)
def jTexts (ts : List Text) : Json := Json.arr (ts.map jText).toArray

partial def parseTree (j : Json) : Except String Trav.Tree := do
  let g : Bool ← getAs j "g"
  match (← getField j "k") with
  | .arr xs =>
    let kids ← xs.toList.mapM fun p =>
      match p with
      | .arr #[n, t] => do pure ((← textOf n), (← parseTree t))
      | _ => throw "bad child"
    pure (Trav.Tree.mk g kids)
  | _ => throw "bad kids"

def parseExc (j : Json) : Except String ExcView.Exc := do
  pure ⟨← (← j.getObjVal? "id").getNat?, ← natList (← j.getObjVal? "sro"), ← (← j.getObjVal? "nf").getBool?,
        ← optNat (← j.getObjVal? "status")⟩

def optExc (j : Json) : Except String (Option ExcView.Exc) :=
  match j with
  | .null => pure none
  | e => do pure (some (← parseExc e))

def parseBody (j : Json) : Except String ExcView.Body :=
  match j with
  | .arr #[.str "respond"] => pure .respond
  | .arr #[.str "ctx"] => pure .returnContext
  | .arr #[.str "raise", e] => do pure (.raise (← parseExc e))
  | _ => throw "bad body"

def parseView (j : Json) : Except String ViewDecl := do
  let rq ← (← j.getObjVal? "req").getNat?
  let cx ← (← j.getObjVal? "ctx").getNat?
  let name ← (← j.getObjVal? "name").getStr?
  let preds ← (← (← j.getObjVal? "preds").getArr?).toList.mapM parsePred
  let perm ← match (← (← j.getObjVal? "perm").getStr?) with
    | "unset" => pure ExcView.Perm.unset
    | "npr" => pure ExcView.Perm.noPermissionRequired
    | "named" => pure ExcView.Perm.named
    | p => throw s!"bad perm {p}"
  let isexc ← (← j.getObjVal? "isexc").getBool?
  let xonly ← (← j.getObjVal? "xonly").getBool?
  let tag ← (← j.getObjVal? "tag").getNat?
  let body ← parseBody (← j.getObjVal? "body")
  let pn ← (← j.getObjVal? "permname").getNat?
  pure ⟨mkStmt rq cx name preds perm isexc xonly tag body, pn⟩

def parseWorld (j : Json) : Except String ExcView.World := do
  let e := fun (f : String) => do parseExc (← j.getObjVal? f)
  pure (mkWorld ⟨← (← j.getObjVal? "policy").getBool?, ← (← j.getObjVal? "defperm").getBool?⟩
    (← e "nf") (← e "mm") (← e "fb") (← e "xnf") (← e "xmm") (← e "xfb"))

def parseKey (j : Json) : Except String CtxKey :=
  match j with
  | .arr #[.str "res", r, p] => do pure (.res (← r.getNat?) (← textsOf p))
  | .arr #[.str "exc", s] => do pure (.exc (← natList s))
  | _ => throw "bad key"

def parseRoute (j : Json) : Except String (RouteDecl × Text) := do
  let name ← textOf (← getField j "name")
  let pattern ← textOf (← getField j "pattern")
  let toks ← match Route.compileRoute Rx.Ucd.ascii [] pattern with
    | .ok ts => pure ts
    | .error _ => throw "route pattern outside the composed model"
  pure (⟨name, toks, ← optNat (← getField j "pred"), ← optNat (← getField j "factory"),
         ← (← getField j "iface").getNat?, ← (← getField j "comb").getNat?, ← (← getField j "ugv").getBool?⟩,
        Route.regexText toks)

def parseRoot (j : Json) : Except String RootDecl := do
  let tree ← parseTree (← getField j "tree")
  let sro ← (← (← getField j "sro").getArr?).toList.mapM fun x =>
    match x with
    | .arr #[p, s] => do pure ((← textsOf p), (← natList s))
    | _ => throw "bad sro entry"
  pure ⟨tree, sro, ← optExc (← getField j "raises")⟩

def optJson : Option Nat → Json
  | none => Json.null
  | some n => toJson n

def clsOf (e : ExcView.Exc) : Json := optJson e.sro.head?

def finalJson : Final → Json
  | .response (.view t) => Json.arr #["resp", "view", toJson t]
  | .response (.self _ st) => Json.arr #["resp", "self", optJson st]
  | .propagates e => Json.arr #["raise", clsOf e]

def envJson (e : Route.Env) : Json :=
  Json.arr (e.map fun (n, v) =>
    match v with
    | .str s => Json.arr #[jText n, "s", jText s]
    | .segs xs => Json.arr #[jText n, "t", jTexts xs]).toArray

def hookName : Pipeline.Point → String
  | .newRequest => "NewRequest"
  | .beforeTraversal => "BeforeTraversal"
  | .routeFactory => "routefactory"
  | .rootFactory => "rootfactory"
  | .traverser => "traverser"
  | .contextFound => "ContextFound"
  | _ => "?"

def attrsFields (a : Attrs) : List (String × Json) := [
  ("route", optJson a.route),
  ("md", match a.matchdict with | none => Json.null | some e => envJson e),
  ("rsro", toJson a.reqSro), ("comb", toJson a.combinedSro),
  ("root", optJson a.root),
  ("trav", match a.trav with
    | none => Json.null
    | some t => Json.mkObj [("context", jTexts t.context), ("view_name", jText t.viewName),
                            ("subpath", jTexts t.subpath), ("traversed", jTexts t.traversed),
                            ("virtual_root", jTexts t.virtualRoot), ("virtual_root_path", jTexts t.virtualRootPath)])]

def outJson (o : Outcome) : Json := Json.mkObj ([
  ("final", finalJson o.final),
  ("caught", match o.caught with | none => Json.null | some e => clsOf e),
  ("seen", match o.seen with
    | none => Json.null
    | some s => Json.arr #[toJson s.context, optJson s.exception, optJson s.excInfo, optJson s.response]),
  ("hooks", Json.arr (o.hooks.map fun h => Json.arr #[Json.str (hookName h.1), Json.mkObj (attrsFields h.2)]).toArray)]
  ++ attrsFields o.attrs)

def run (j : Json) : Except String Json := do
  let routes ← (← (← getField j "routes").getArr?).toList.mapM parseRoute
  let roots ← (← (← getField j "roots").getArr?).toList.mapM parseRoot
  let views ← (← (← getField j "views").getArr?).toList.mapM parseView
  let allowed ← (← (← getField j "allowed").getArr?).toList.mapM fun x =>
    match x with
    | .arr #[k, p] => do pure ((← parseKey k), (← p.getNat?))
    | _ => throw "bad allowed entry"
  let app : App := {
    routes := routes.map (·.1), roots := roots, defaultRoot := ← (← getField j "defroot").getNat?,
    views := views, world := ← parseWorld (← getField j "world"), urlDecode := ← parseExc (← getField j "urldecode"),
    keyError := ← parseExc (← getField j "keyerror"), unicodeDecode := ← parseExc (← getField j "unicodedecode"),
    allowed := allowed }
  let rj ← getField j "req"
  let path : Option Trav.Bytes ← match (← getField rj "path") with
    | .null => pure none
    | p => do
      let bs : List Nat ← fromJson? p
      pure (some (bs.map UInt8.ofNat))
  let vroot : Option Trav.Bytes ← match (← getField rj "vroot") with
    | .null => pure none
    | p => do
      let bs : List Nat ← fromJson? p
      pure (some (bs.map UInt8.ofNat))
  let rq : Req := ⟨path, vroot, ← natList (← getField rj "rp"), ← parseReq (← getField rj "base")⟩
  return Json.mkObj [
    ("model", outJson (handle app rq)), ("spec", outJson (specHandle app rq)),
    ("model_erased", outJson (handle app rq).eraseTraversed), ("spec_erased", outJson (specHandle app rq).eraseTraversed),
    ("wf", toJson (app.wf && app.world.ok)), ("coherent", toJson (ViewLookup.coherentB app.regs)),
    ("regex", Json.arr (routes.map fun r => jText r.2).toArray)]

end DrvX01

def main : IO Unit := jsonDriver DrvX01.run
