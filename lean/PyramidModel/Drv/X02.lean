import PyramidModel.Prelude
import PyramidModel.Lemmas.SettingsSpec
import PyramidModel.Csrf
/-! Driver for X02: one JSON case per line.  Text t = list of code points.
value V = null | true | false | <int> | {"s":t} | {"l":[atom,…]}      (atom = V without "l")
in : {"op":"settings","d":[[t,V],…],"kw":[[t,V],…],"env":[[t,t],…]}
     {"op":"asbool","v":V}          {"op":"aslist","v":V,"flatten":bool}
     {"op":"differ","a":[byte…],"b":[byte…]}      {"op":"same_domain","host":t,"pattern":t}
     {"op":"text","v":SB} {"op":"bytes","v":SB} {"op":"ascii","v":SB}     SB = {"s":t} | {"b":[byte…]} | {"o":n}
     {"op":"iter","v":V}            {"op":"sorted","v":{"s":t}|{"l":[t,…]}}
out: settings {"ok":[[t,V],…]} | {"err":"TypeError"|"KeyError"}, plus "spec": the same shape by the declarative reading,
              "dom": inside the modelled domain
     asbool   {"out":b}     aslist {"ok":[atom…]} | {"err":…}
     differ   {"out":b}     same_domain {"out":b}
     text     {"out":SB}    bytes {"ok":SB}|{"err":…}   ascii {"ok":t}|{"err":…}
     iter     {"nonstr":b,"strorit":true|null}      sorted {"out":[t,…]} -/
open Pyr Pyr.Settings Lean

namespace DrvX02

def textOf (j : Json) : Except String Settings.Text := do
  let cs : List Nat ← fromJson? j
  pure (cs.map Char.ofNat)

def jText (t : Settings.Text) : Json := toJson (t.map Char.toNat)

def atomOf (j : Json) : Except String Atom :=
  match j with
  | .null => pure .none
  | .bool b => pure (.bool b)
  | .num _ => do
    let i : Int ← fromJson? j
    pure (.int i)
  | .obj _ => do pure (.str (← textOf (← getField j "s")))
  | _ => throw "bad atom"

def valOf (j : Json) : Except String Val :=
  match j with
  | .obj _ =>
    match j.getObjVal? "l" with
    | .ok (.arr xs) => do pure (.list (← xs.toList.mapM atomOf))
    | _ => do pure (.str (← textOf (← getField j "s")))
  | _ => do pure (← atomOf j).toVal

def jAtom : Atom → Json
  | .none => .null
  | .bool b => .bool b
  | .int i => toJson i
  | .str t => Json.mkObj [("s", jText t)]

def jVal : Val → Json
  | .none => .null
  | .bool b => .bool b
  | .int i => toJson i
  | .str t => Json.mkObj [("s", jText t)]
  | .list xs => Json.mkObj [("l", Json.arr (xs.map jAtom).toArray)]

def dictOf (j : Json) : Except String Dict :=
  match j with
  | .arr xs => xs.toList.mapM fun p =>
    match p with
    | .arr #[k, v] => do pure (← textOf k, ← valOf v)
    | _ => throw "bad pair"
  | _ => throw "expected a list of pairs"

def envOf (j : Json) : Except String Env :=
  match j with
  | .arr xs => xs.toList.mapM fun p =>
    match p with
    | .arr #[k, v] => do pure (← textOf k, ← textOf v)
    | _ => throw "bad pair"
  | _ => throw "expected a list of pairs"

def jErr : Err → Json
  | .typeError => "TypeError"
  | .keyError => "KeyError"

def jDictRes : Except Err Dict → List (String × Json)
  | .ok d => [("ok", Json.arr (d.map fun kv => Json.arr #[jText kv.1, jVal kv.2]).toArray)]
  | .error e => [("err", jErr e)]

def sbOf (j : Json) : Except String SB :=
  match j.getObjVal? "s", j.getObjVal? "b", j.getObjVal? "o" with
  | .ok t, _, _ => do pure (.str (← textOf t))
  | _, .ok b, _ => do
    let bs : List Nat ← fromJson? b
    pure (.bytes (bs.map Nat.toUInt8))
  | _, _, .ok o => do
    let n : Nat ← fromJson? o
    pure (.other n)
  | _, _, _ => throw "bad SB"

def jSB : SB → Json
  | .str t => Json.mkObj [("s", jText t)]
  | .bytes b => Json.mkObj [("b", toJson (b.map UInt8.toNat))]
  | .other n => Json.mkObj [("o", toJson n)]

def jCodecErr : CodecErr → Json
  | .unicodeEncode => "UnicodeEncodeError"
  | .unicodeDecode => "UnicodeDecodeError"
  | .typeError => "TypeError"

end DrvX02
open DrvX02

def main : IO Unit := jsonDriver fun j => do
  let op : String ← getAs j "op"
  match op with
  | "settings" =>
    let d ← dictOf (← getField j "d")
    let kw ← dictOf (← getField j "kw")
    let env ← envOf (← getField j "env")
    let specPart := match jDictRes (specSettings table (update d kw) env) with
      | [(k, v)] => Json.mkObj [(k, v)]
      | _ => Json.null
    return Json.mkObj (jDictRes (settings d kw env) ++ [("spec", specPart), ("dom", toJson (inDomain d kw env))])
  | "asbool" =>
    let v ← valOf (← getField j "v")
    return Json.mkObj [("out", toJson (asbool v))]
  | "aslist" =>
    let v ← valOf (← getField j "v")
    let fl : Bool ← getAs j "flatten"
    match aslist v fl with
    | .ok xs => return Json.mkObj [("ok", Json.arr (xs.map jAtom).toArray)]
    | .error e => return Json.mkObj [("err", jErr e)]
  | "differ" =>
    let a : List Nat ← getAs j "a"
    let b : List Nat ← getAs j "b"
    return Json.mkObj [("out", toJson (Csrf.stringsDiffer (a.map Nat.toUInt8) (b.map Nat.toUInt8)))]
  | "same_domain" =>
    let h ← textOf (← getField j "host")
    let p ← textOf (← getField j "pattern")
    return Json.mkObj [("out", toJson (Csrf.isSameDomain h p))]
  | "text" =>
    let v ← sbOf (← getField j "v")
    return Json.mkObj [("out", jSB (text_ v))]
  | "bytes" =>
    let v ← sbOf (← getField j "v")
    match bytes_ v with
    | .ok r => return Json.mkObj [("ok", jSB r)]
    | .error e => return Json.mkObj [("err", jCodecErr e)]
  | "ascii" =>
    let v ← sbOf (← getField j "v")
    match ascii_ v with
    | .ok r => return Json.mkObj [("ok", jText r)]
    | .error e => return Json.mkObj [("err", jCodecErr e)]
  | "iter" =>
    let v ← valOf (← getField j "v")
    return Json.mkObj [("nonstr", toJson (isNonstrIter v)),
                       ("strorit", match isStringOrIterable v with | some b => toJson b | none => Json.null)]
  | "sorted" =>
    let vj ← getField j "v"
    match vj.getObjVal? "l" with
    | .ok (.arr xs) =>
      let ts ← xs.toList.mapM textOf
      return Json.mkObj [("out", Json.arr ((asSortedTuple (.inr ts)).map jText).toArray)]
    | _ =>
      let t ← textOf (← getField vj "s")
      return Json.mkObj [("out", Json.arr ((asSortedTuple (.inl t)).map jText).toArray)]
  | _ => throw s!"unknown op {op}"
