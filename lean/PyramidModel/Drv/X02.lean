-- stub driver, replaced by the builder of X02
def main : IO Unit := pure ()
