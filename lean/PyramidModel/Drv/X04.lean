import PyramidModel.Prelude
import PyramidModel.Lemmas.AssetsSpec
/-! Driver for X04: one JSON case per line.
in : {"op":"serve","pkgs":[[name,root],…],"nodes":[[abs path,isdir],…],"queries":[[pkg,name],…],
      "mode":"app","batches":[[[to_override,override_with],…],…]}
   | {… "mode":"po","pkg":p,"inserts":[[path,["pkg",name,prefix]|["fs",prefix]],…]}
   | {"op":"spec","pkgs":…,"spec":s,"pname":s|null,"abspath":s,"pkg":s}
out: serve: {"fail":[phase,idx,err]} | {"q":[{"o":O|null,"p":P,"s":P},…]}      (O = PackageOverrides level, `null` answers kept;
       P = provider level; "s" = the six observations of the place the READING serves)
     spec : {"resolve":[p|null,f],"abspath":t,"desc":[…],"fromabs":t}
The world is a listing of normalised absolute paths (`/T` stands for the scratch directory of the harness). -/
open Pyr Pyr.Assets Lean

abbrev Nodes := List (Text × Bool)
abbrev Roots := List (Text × Text)

def tx (s : String) : Text := s.toList
def js (t : Text) : Json := Json.str (String.ofList t)

def segsOf (raw : Text) : List Text := (splitSlash raw).filter (· ≠ [])
def keyOf (raw : Text) : Text := '/' :: joinSegs (segsOf raw)

/-- what `os.stat`/`os.listdir` find for a raw path string: empty segments are ignored, a trailing slash makes a
regular file disappear; the generator never produces `.`/`..` segments -/
def lookupRaw (ns : Nodes) (raw : Text) : Node :=
  let k := keyOf raw
  match ns.lookup k with
  | none => .absent
  | some false => if endsWithSlash raw then .absent else .file
  | some true =>
    let pre := if k = ['/'] then k else k ++ ['/']
    .dir (ns.filterMap fun (p, _) =>
      if pre.isPrefixOf p ∧ p ≠ k then
        let rest := p.drop pre.length
        if rest.contains '/' ∨ rest = [] then none else some rest
      else none)

def locText (roots : Roots) : Loc → Text
  | .inPkg p path => match roots.lookup p with
    | some root => fn root path
    | none => tx "?" ++ p
  | .onFs path => path

def worldOf (roots : Roots) (ns : Nodes) : World := fun l => lookupRaw ns (locText roots l)

def errJ : Err → Json
  | .isDir => "isdir"
  | .notDir => "notdir"
  | .notFound => "notfound"

def exJ {α} (f : α → Json) : Except Err α → Json
  | .ok a => Json.arr #["ok", f a]
  | .error e => Json.arr #["err", errJ e]

def exOptJ {α} (f : α → Json) : Except Err (Option α) → Json
  | .ok (some a) => Json.arr #["ok", f a]
  | .ok none => Json.null
  | .error e => Json.arr #["err", errJ e]

def cfgErrJ : CfgErr → Json
  | .itself => "itself"
  | .absMissing => "absmissing"
  | .importError => "import"
  | .dirWithFile => "dirwithfile"
  | .fileWithDir => "filewithdir"

def parseSource (j : Json) : Except String Source :=
  match j with
  | .arr #[.str "pkg", .str n, .str p] => pure (.pkg (tx n) (tx p))
  | .arr #[.str "fs", .str p] => pure (.fs (tx p))
  | _ => throw "bad source"

def pairs (j : Json) : Except String (List (Text × Text)) :=
  match j with
  | .arr xs => xs.toList.mapM fun x => match x with
    | .arr #[.str a, .str b] => pure (tx a, tx b)
    | _ => throw "bad pair"
  | _ => throw "bad pairs"

def serve (j : Json) : Except String Json := do
  let roots ← pairs (← getField j "pkgs")
  let nodesJ ← getField j "nodes"
  let ns : Nodes ← match nodesJ with
    | .arr xs => xs.toList.mapM fun x => match x with
      | .arr #[.str p, .bool d] => pure (tx p, d)
      | _ => throw "bad node"
    | _ => throw "bad nodes"
  let w := worldOf roots ns
  let importable : Text → Bool := fun p => (roots.lookup p).isSome
  let queries ← pairs (← getField j "queries")
  let mode : String ← getAs j "mode"
  let lt := fun l => js (locText roots l)
  let key := fun l => js (keyOf (locText roots l))
  let names := fun (es : List Text) => Json.arr (es.map js).toArray
  -- the registry and, for the reading, the accepted declarations per package
  let (reg, declsFor) ← match mode with
    | "app" => do
      let bj ← getField j "batches"
      let batches ← match bj with
        | .arr xs => xs.toList.mapM pairs
        | _ => throw "bad batches"
      match runBatches w importable 0 [] batches with
      | .error f =>
        let r : Except String (Registry × (Text → List Decl)) :=
          throw ("FAIL " ++ (Json.arr #[if f.phase = .declare then "declare" else "commit", toJson f.idx, cfgErrJ f.err]).compress)
        r
      | .ok reg =>
        -- the reading's declarations: every accepted statement in declaration order (validated one by one)
        let accs := batches.flatten.filterMap fun (a, b) => match overrideAsset w importable a b with
          | .ok acc => some acc
          | .error _ => none
        pure (reg, fun p => declsOf accs p)
    | "po" => do
      let pkg : String ← getAs j "pkg"
      let ij ← getField j "inserts"
      let ins ← match ij with
        | .arr xs => xs.toList.mapM fun x => match x with
          | .arr #[.str p, s] => do pure ((tx p, ← parseSource s) : Decl)
          | _ => throw "bad insert"
        | _ => throw "bad inserts"
      let ovs := ins.foldl (fun os d => insert os d.1 d.2) []
      pure ([(tx pkg, ovs)], fun p => if p = tx pkg then ins else [])
    | _ => throw "bad mode"
  let out := queries.map fun (p, name) =>
    let ovs := reg.get p
    let o : Json := match ovs with
      | none => Json.null
      | some os => Json.mkObj [
          ("fn", exOptJ lt (PO.getFilename w os name)), ("st", exOptJ key (PO.getStream w os name)),
          ("sg", exOptJ key (PO.getString w os name)), ("has", exOptJ toJson (PO.hasResource w os name)),
          ("isd", exOptJ toJson (PO.isdir w os name)), ("ls", exOptJ names (PO.listdir w os name))]
    let pj := Json.mkObj [
      ("fn", exJ lt (Prov.filename w ovs p name)), ("st", exJ key (Prov.stream w ovs p name)),
      ("sg", exJ key (Prov.string w ovs p name)), ("has", exJ toJson (Prov.hasResource w ovs p name)),
      ("isd", exJ toJson (Prov.isdir w ovs p name)), ("ls", exJ names (Prov.listdir w ovs p name))]
    let l := specServed w (declsFor p) p name
    let sj := Json.mkObj [
      ("fn", exJ lt (.ok l)), ("st", exJ key (openAt w l)), ("sg", exJ key (openAt w l)),
      ("has", exJ toJson (.ok (w l).there)), ("isd", exJ toJson (.ok (w l).isDir)), ("ls", exJ names (listAt w l))]
    Json.mkObj [("o", o), ("p", pj), ("s", sj)]
  return Json.mkObj [("q", Json.arr out.toArray)]

def specOp (j : Json) : Except String Json := do
  let roots ← pairs (← getField j "pkgs")
  let spec : String ← getAs j "spec"
  let pname : Option String ← match (← getField j "pname") with
    | .null => pure none
    | .str s => pure (some s)
    | _ => throw "bad pname"
  let abspath : String ← getAs j "abspath"
  let pkg : String ← getAs j "pkg"
  let rf : Text → Text → Text := fun p f => match roots.lookup p with
    | some root => fn root f
    | none => tx "!import"
  let (rp, rfn) := resolveAssetSpec (tx spec) (pname.map tx)
  let desc : Json := match resolve (pname.map tx) (tx spec) with
    | .fs p => Json.arr #["fs", js p]
    | .pkg n p => Json.arr #["pkg", js n, js p]
    | .valueError => Json.arr #["valueError"]
  let root := (roots.lookup (tx pkg)).getD (tx "?")
  return Json.mkObj [
    ("resolve", Json.arr #[match rp with | some p => js p | none => Json.null, js rfn]),
    ("abspath", js (abspathFromAssetSpec rf (tx spec) (pname.map tx))),
    ("desc", desc),
    ("fromabs", js (assetSpecFromAbspath (tx abspath) (tx pkg) root))]

def main : IO Unit := jsonDriver fun j => do
  let op : String ← getAs j "op"
  match op with
  | "serve" =>
    match serve j with
    | .ok r => pure r
    | .error e =>
      if e.startsWith "FAIL " then
        match Json.parse (e.drop 5).toString with
        | .ok f => pure (Json.mkObj [("fail", f)])
        | .error e' => throw e'
      else throw e
  | "spec" => specOp j
  | _ => throw "bad op"
