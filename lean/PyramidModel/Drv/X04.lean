-- stub driver, replaced by the builder of X04
def main : IO Unit := pure ()
