import PyramidModel.Prelude
import PyramidModel.Lemmas.SessionSpec
/-! Driver for C10: one JSON case (a whole history) per line.
in : {"cfg":{"timeout":n|null,"reissue":n|null,"soe":b,"dsize":n}, "clock0":q,
      "reqs":[{"dq":n,"present":"latest"|"absent"|["issued",k]|"reject"|["wire",W]|["raw",JV],"ops":null|[[dq,OP],…],"raised":b},…]}
     W  = "nt" | [F,F,S]   F = q | "bad"   S = DATA | "nodict"
     JV = null | bool | int | string | {"l":[JV…]} | {"d":[[k,JV]…]}      DATA = [[k,JV]…]
     OP = ["get",k] ["get",k,d] ["getitem",k] ["contains",k] ["len"] ["keys"] ["items"] ["values"] ["iter"] ["set",k,v] ["del",k]
          ["update",DATA] ["pop",k] ["pop",k,d] ["popitem"] ["setdefault",k,v] ["clear"] ["flash",m,q,dup]
          ["pop_flash",q] ["peek_flash",q] ["new_csrf",tok] ["get_csrf",tok] ["invalidate"] ["changed"]
out: {"model":[per request…], "spec":[per request…]|null}
-/
open Pyr Pyr.Session Lean

/-- cookie values of the driver's symbolic codec: a cookie the application issued, a cookie the real
serialiser refuses (classified by the harness on the real bytes), or a validly signed hand-made value -/
inductive DC where
  | good (p : Payload)
  | reject
  | wire (w : Wire)

def drvCodec (dsize : Nat) : Codec DC :=
  { dumps := .good
    loads := fun c => match c with
      | .good p => some (Wire.ofPayload p)
      | .reject => none
      | .wire w => some w
    size := fun c => match c with
      | .good p => signedLen dsize (payloadJsonLen p)
      | _ => 0 }

partial def parseJV (j : Json) : Except String JV :=
  match j with
  | .null => pure .null
  | .bool b => pure (.bool b)
  | .str s => pure (.str s)
  | .num _ => do let i : Int ← fromJson? j; pure (.int i)
  | .obj _ =>
    match j.getObjVal? "l" with
    | .ok (.arr xs) => do let ys ← xs.toList.mapM parseJV; pure (.arr ys)
    | _ =>
      match j.getObjVal? "d" with
      | .ok (.arr xs) => do
        let ys ← xs.toList.mapM fun p => match p with
          | .arr #[.str k, v] => do let w ← parseJV v; pure (k, w)
          | _ => throw "bad pair"
        pure (.obj ys)
      | _ => throw "bad object"
  | _ => throw "bad value"

def parseData (j : Json) : Except String Data :=
  match j with
  | .arr xs => xs.toList.mapM fun p => match p with
    | .arr #[.str k, v] => do let w ← parseJV v; pure (k, w)
    | _ => throw "bad pair"
  | _ => throw "bad data"

partial def jvJson : JV → Json
  | .null => .null
  | .bool b => .bool b
  | .int i => toJson i
  | .str s => .str s
  | .arr xs => Json.mkObj [("l", Json.arr (xs.map jvJson).toArray)]
  | .obj kvs => Json.mkObj [("d", Json.arr (kvs.map fun (k, v) => Json.arr #[.str k, jvJson v]).toArray)]

def dataJson (d : Data) : Json := Json.arr (d.map fun (k, v) => Json.arr #[.str k, jvJson v]).toArray

def parseOp (j : Json) : Except String Op :=
  match j with
  | .arr #[.str "get", .str k] => pure (.get k none)
  | .arr #[.str "get", .str k, d] => do pure (.get k (some (← parseJV d)))
  | .arr #[.str "getitem", .str k] => pure (.getitem k)
  | .arr #[.str "contains", .str k] => pure (.contains k)
  | .arr #[.str "len"] => pure .len
  | .arr #[.str "keys"] => pure .keys
  | .arr #[.str "items"] => pure .items
  | .arr #[.str "values"] => pure .values
  | .arr #[.str "iter"] => pure .iter
  | .arr #[.str "set", .str k, v] => do pure (.set k (← parseJV v))
  | .arr #[.str "del", .str k] => pure (.del k)
  | .arr #[.str "update", d] => do pure (.update (← parseData d))
  | .arr #[.str "pop", .str k] => pure (.pop k none)
  | .arr #[.str "pop", .str k, d] => do pure (.pop k (some (← parseJV d)))
  | .arr #[.str "popitem"] => pure .popitem
  | .arr #[.str "setdefault", .str k, v] => do pure (.setdefault k (← parseJV v))
  | .arr #[.str "clear"] => pure .clear
  | .arr #[.str "flash", m, .str q, .bool dup] => do pure (.flash (← parseJV m) q dup)
  | .arr #[.str "pop_flash", .str q] => pure (.popFlash q)
  | .arr #[.str "peek_flash", .str q] => pure (.peekFlash q)
  | .arr #[.str "new_csrf", .str t] => pure (.newCsrf t)
  | .arr #[.str "get_csrf", .str t] => pure (.getCsrf t)
  | .arr #[.str "invalidate"] => pure .invalidate
  | .arr #[.str "changed"] => pure .changed
  | _ => throw s!"bad op {j.compress}"

def parseOps (j : Json) : Except String (Option (List (Nat × Op))) :=
  match j with
  | .null => pure none
  | .arr xs => do
    let l ← xs.toList.mapM fun p => match p with
      | .arr #[d, o] => do
        let dq : Nat ← fromJson? d
        let op ← parseOp o
        pure (dq, op)
      | _ => throw "bad timed op"
    pure (some l)
  | _ => throw "bad ops"

def parseFld (j : Json) : Except String Fld :=
  match j with
  | .str "bad" => pure .bad
  | j => do let n : Nat ← fromJson? j; pure (.num n)

def parseWire (j : Json) : Except String Wire :=
  match j with
  | .str "nt" => pure .notTriple
  | .arr #[r, c, s] => do
    let r ← parseFld r
    let c ← parseFld c
    let s ← match s with
      | .str "nodict" => pure none
      | s => do pure (some (← parseData s))
    pure (.triple r c s)
  | _ => throw "bad wire"

def parsePresent (j : Json) : Except String (Present DC) :=
  match j with
  | .str "latest" => pure .latest
  | .str "absent" => pure .absent
  | .str "reject" => pure (.other .reject)
  | .arr #[.str "issued", k] => do let n : Nat ← fromJson? k; pure (.issued n)
  | .arr #[.str "wire", w] => do pure (.other (.wire (← parseWire w)))
  | .arr #[.str "raw", v] => do pure (.other (.wire ((← parseJV v).toWire digitStrNum)))
  | _ => throw "bad present"

def parseReq (j : Json) : Except String (Req DC) := do
  let dq : Nat ← getAs j "dq"
  let pres ← parsePresent (← getField j "present")
  let ops ← parseOps (← getField j "ops")
  let raised : Bool ← getAs j "raised"
  pure ⟨dq, pres, ops, raised⟩

def resJson : Res → Json
  | .unit => .str "unit"
  | .val v => Json.arr #[.str "val", jvJson v]
  | .bool b => Json.arr #[.str "bool", .bool b]
  | .nat n => Json.arr #[.str "nat", toJson n]
  | .keys ks => Json.arr #[.str "keys", toJson ks]
  | .items kvs => Json.arr #[.str "items", dataJson kvs]
  | .vals vs => Json.arr #[.str "vals", Json.arr (vs.map jvJson).toArray]
  | .keyError => .str "keyerror"
  | .err => .str "err"

def payloadJson (dsize : Nat) (p : Payload) : Json :=
  Json.mkObj [("accessed", toJson p.accessed), ("accInt", toJson p.accInt), ("created", toJson p.created),
              ("data", dataJson p.data), ("size", toJson (signedLen dsize (payloadJsonLen p)))]

def outcomeJson (dsize : Nat) : Outcome DC → Json
  | .noCookie => .str "none"
  | .suppressed => .str "suppressed"
  | .oversize => .str "oversize"
  | .cookie (.good p) => Json.arr #[.str "cookie", payloadJson dsize p]
  | .cookie _ => .str "?"

def obsJson (dsize : Nat) (o : Obs DC) : Json :=
  Json.mkObj [
    ("touched", toJson o.touched),
    ("loadRaised", toJson o.loadRaised),
    ("start", match o.start with
      | none => .null
      | some s => Json.mkObj [("data", dataJson s.data), ("created", toJson s.created),
                              ("renewed", toJson s.renewed), ("new", toJson s.new)]),
    ("results", Json.arr (o.results.map resJson).toArray),
    ("end", match o.final with
      | none => .null
      | some s => Json.mkObj [("data", dataJson s.data), ("created", toJson s.created),
                              ("accessed", toJson s.accessed), ("accInt", toJson s.accInt),
                              ("dirty", toJson s.dirty), ("callbacks", toJson s.callbacks)]),
    ("outcome", outcomeJson dsize o.outcome)]

/-- the statement-level view of a request, when it has one (no hand-made wire values) -/
def toSReq (r : Req DC) : Option Spec.SReq :=
  match r.present with
  | .latest => some ⟨r.dq, .latest, r.ops, r.raised⟩
  | .absent => some ⟨r.dq, .absent, r.ops, r.raised⟩
  | .issued k => some ⟨r.dq, .issued k, r.ops, r.raised⟩
  | .other .reject => some ⟨r.dq, .rejected, r.ops, r.raised⟩
  | .other _ => none

def soutJson (dsize : Nat) : Spec.SOutcome → Json
  | .noCookie => .str "none"
  | .suppressed => .str "suppressed"
  | .oversize => .str "oversize"
  | .cookie c => Json.arr #[.str "cookie", payloadJson dsize c.payload]

def sobsJson (dsize : Nat) (o : Spec.SObs) : Json :=
  Json.mkObj [("touched", toJson o.touched), ("start", dataJson o.startData), ("created", toJson o.created),
              ("new", toJson o.new), ("results", Json.arr (o.results.map resJson).toArray),
              ("end", dataJson o.endData), ("outcome", soutJson dsize o.outcome)]

def main : IO Unit := jsonDriver fun j => do
  let cj ← getField j "cfg"
  let timeout : Option Nat ← getAs cj "timeout"
  let reissue : Option Nat ← getAs cj "reissue"
  let soe : Bool ← getAs cj "soe"
  let dsize : Nat ← getAs cj "dsize"
  let clock0 : Nat ← getAs j "clock0"
  let rj ← getField j "reqs"
  let reqs ← match rj with
    | .arr xs => xs.toList.mapM parseReq
    | _ => throw "bad reqs"
  let cfg : Cfg := ⟨timeout, reissue, soe⟩
  let (_, obs) := runHistory (drvCodec dsize) cfg ⟨clock0, []⟩ reqs
  let spec : Json := match reqs.mapM toSReq with
    | none => .null
    | some sreqs =>
      let (_, sobs) := Spec.specRun (fun p => signedLen dsize (payloadJsonLen p)) cfg ⟨clock0, []⟩ sreqs
      Json.arr (sobs.map (sobsJson dsize)).toArray
  return Json.mkObj [("model", Json.arr (obs.map (obsJson dsize)).toArray), ("spec", spec)]
