-- driver stub for C10 (replaced when the model is built)
def main : IO Unit := pure ()
