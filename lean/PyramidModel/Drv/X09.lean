-- stub driver, replaced by the builder of X09
def main : IO Unit := pure ()
