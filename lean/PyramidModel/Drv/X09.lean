import PyramidModel.Prelude
import PyramidModel.Dotted
/-! Driver for X09: one JSON case per line (see harness/x09.py for the shape).
in : {"mods":[[dotted,"pkg"|"module"|"bad"],…],"attrs":[[["m",dotted]|["o",id],name,id],…],"pre":[dotted,…],"mode":"dnr"|"cfg",
      "pkg":{"k":"none"}|{"k":"caller","v":dotted}|{"k":"name","v":str}|{"k":"obj","v":dotted},
      "ops":[{"m":"resolve"|"maybe"|"name"|"package","s":str}|{"m":…,"o":n},…]}
out: {"init":…,"init_calls":[…],"init_finds":[…],"ops":[{"out":O,"calls":[…],"finds":[…]},…],"loaded":[…]} -/
open Pyr Pyr.Dotted Lean

namespace DrvX09

def pathOf (s : String) : Path := splitOn '.' s.toList
def dotted (p : Path) : String := String.ofList (joinDots p)
def jPaths (ps : List Path) : Json := Json.arr (ps.map fun p => Json.str (dotted p)).toArray

def arrOf (j : Json) : Except String (List Json) :=
  match j with
  | .arr xs => pure xs.toList
  | _ => throw "expected a list"

def kindOf : String → Except String MK
  | "pkg" => pure .pkg
  | "module" => pure .module
  | "bad" => pure .bad
  | k => throw s!"unknown kind {k}"

def ownerOf (j : Json) : Except String Obj := do
  match ← arrOf j with
  | [t, v] =>
    let t : String ← fromJson? t
    if t == "m" then
      let s : String ← fromJson? v
      pure (.mod (pathOf s))
    else
      let n : Nat ← fromJson? v
      pure (.att n)
  | _ => throw "owner"

def univOf (j : Json) : Except String Univ := do
  let ms ← (← arrOf (← getField j "mods")).mapM fun e => do
    match ← arrOf e with
    | [n, k] =>
      let n : String ← fromJson? n
      let k : String ← fromJson? k
      pure (pathOf n, ← kindOf k)
    | _ => throw "mods entry"
  let as ← (← arrOf (← getField j "attrs")).mapM fun e => do
    match ← arrOf e with
    | [o, n, i] =>
      let n : String ← fromJson? n
      let i : Nat ← fromJson? i
      pure (← ownerOf o, n.toList, i)
    | _ => throw "attrs entry"
  pure { mods := ms, attrs := as }

def jErr : Err → String
  | .importError => "ImportError"
  | .attributeError => "AttributeError"
  | .relValueError => "ValueErrorRel"
  | .valueError => "ValueError"
  | .indexError => "IndexError"

def jOut : Out → Json
  | .obj (.mod p) => Json.mkObj [("ok", Json.arr #["mod", Json.str (dotted p)])]
  | .obj (.att i) => Json.mkObj [("ok", Json.arr #["att", toJson i])]
  | .same n => Json.mkObj [("ok", Json.arr #["same", toJson n])]
  | .pyNone => Json.mkObj [("ok", Json.arr #["same", toJson (0 : Nat)])]
  | .str t => Json.mkObj [("ok", Json.arr #["str", Json.str (String.ofList t)])]
  | .err e => Json.mkObj [("err", Json.str (jErr e))]

def methOf : String → Except String Meth
  | "resolve" => pure .resolve
  | "maybe" => pure .maybe
  | "name" => pure .name
  | "package" => pure .package
  | m => throw s!"unknown method {m}"

def nonstr : Nat := 4

def opOf (j : Json) : Except String (Meth × Arg) := do
  let m ← methOf (← getAs j "m")
  match j.getObjVal? "s" with
  | .ok s =>
    let s : String ← fromJson? s
    pure (m, .str s.toList)
  | .error _ =>
    let n : Nat ← getAs j "o"
    pure (m, .other (n % nonstr))

def reset (st : St) : St := { st with calls := [], finds := [] }

def runOps (U : Univ) (sel : Sel) : List (Meth × Arg) → St → List Json × St
  | [], st => ([], st)
  | (m, a) :: rest, st =>
    let (o, st1) := runOp U sel m a (reset st)
    let j := Json.mkObj [("out", jOut o), ("calls", jPaths st1.calls), ("finds", jPaths st1.finds)]
    let (js, st2) := runOps U sel rest st1
    (j :: js, st2)

def finish (init : String) (ic fi : List Path) (ops : List Json) (st : St) : Json :=
  let loaded := (st.loaded.map dotted).mergeSort (fun a b => decide (a ≤ b))
  Json.mkObj [("init", Json.str init), ("init_calls", jPaths ic), ("init_finds", jPaths fi), ("ops", Json.arr ops.toArray),
              ("loaded", toJson loaded)]

def run (j : Json) : Except String Json := do
  let U ← univOf j
  let pre : List String ← getAs j "pre"
  let mode : String ← getAs j "mode"
  let pk ← getField j "pkg"
  let k : String ← getAs pk "k"
  let ops ← (← arrOf (← getField j "ops")).mapM opOf
  let st0 := pre.foldl (fun st m => (importPath U (pathOf m) st).2) ({} : St)
  let v : String ← if k == "none" then pure "" else getAs pk "v"
  let p := pathOf v
  -- a module object / the calling module must be importable, otherwise the case is void
  let (pe, st1) := if k == "caller" || k == "obj" then importPath U p st0 else (none, st0)
  if pe.isSome then
    return finish "invalid" [] [] [] st1
  let arg : PkgArg :=
    if k == "none" then .none
    else if k == "name" then .name p
    else if k == "obj" then .obj p
    else if mode == "cfg" then .obj p          -- Configurator(): package = caller_package(), then DottedNameResolver(module)
    else .caller p
  let (r, st2) := initResolver U arg (reset st1)
  let (ic, fi) := if mode == "cfg" then ([], []) else (st2.calls, st2.finds)
  match r with
  | .error e => return finish (jErr e) ic fi [] st2
  | .ok sel =>
    let (js, st3) := runOps U sel ops st2
    return finish "ok" ic fi js st3

end DrvX09

def main : IO Unit := jsonDriver DrvX09.run
