import PyramidModel.Prelude
import PyramidModel.Route
/-! Driver for C01: one JSON case per line.  Texts travel as lists of code points, bytes as lists of numbers.
in : {"ucd":{"word":[cp…],"digit":[…],"space":[…]}, "rxlib":[RX…],
      "routes":[{"name":T,"pattern":T,"preds":[["c",bool] | ["e",T,T]…],"static":bool}…], "path":[byte…]|null}
     RX = ["eps"] | ["chr",cp] | ["any"] | ["all"] | ["set",neg,[["c",cp]|["r",lo,hi]|["e","d"|"w"|"s"]…]] | ["esc",k,neg]
        | ["seq",RX,RX] | ["alt",RX,RX] | ["grp",null|name,RX] (capturing group of the regex's own, transparent) | ["rep",greedy,min,max|null,RX]
     or {"op":"tables"}  (the ASCII tables of the model, compared with `re` by the harness)
     a route may carry "builtins":[[keyword, null | bool]…]: built-in predicate keywords as passed (null = None; bool = what the
     predicate made from the given value answers for this request), and the add_route layer: "top":T|null, "prefixes":[T|null…], "usepath":bool, "inherit":bool, "nopattern":bool
out: {"connected":[T | "patternNone" | "inheritSlash"…] (the pattern add_route hands to connect; refused ones are not declared),
      "rxtext":[T…], "rxok":[bool…], "compile":["ok"|"reerror"|"unsupported"…], "regex":[T|null…], "gen":[T|null…],
      "routelist":[id…], "unsupported":bool, "outcome":"urldecode"|"none"|{"id":n,"idx":i,"match":[[T,"s",T]|[T,"t",[T…]]…]},
      "spec": same shape as outcome (least qualifying index, computed independently of the loop), "calls":[[id,k]…],
      "nmatch":[number of ways each listed route's pattern matches the path]} -/
open Pyr Pyr.Rx Pyr.Route Lean

def jText (j : Json) : Except String Text := do
  let cs : List Nat ← fromJson? j
  pure (cs.map Char.ofNat)

def tJson (t : Text) : Json := toJson (t.map Char.toNat)

def jChar (j : Json) : Except String Char := do
  let n : Nat ← fromJson? j
  pure (Char.ofNat n)

def jEsc (j : Json) : Except String Esc :=
  match j with
  | .str "d" => pure .d
  | .str "w" => pure .w
  | .str "s" => pure .s
  | _ => throw "bad esc"

def jItem (j : Json) : Except String CItem :=
  match j with
  | .arr #[.str "c", c] => do pure (.ch (← jChar c))
  | .arr #[.str "r", a, b] => do pure (.range (← jChar a) (← jChar b))
  | .arr #[.str "e", k] => do pure (.esc (← jEsc k))
  | _ => throw "bad class item"

def jBool (j : Json) : Except String Bool := fromJson? j

partial def jRx (j : Json) : Except String Rx :=
  match j with
  | .arr #[.str "eps"] => pure .eps
  | .arr #[.str "any"] => pure .any
  | .arr #[.str "all"] => pure .all
  | .arr #[.str "chr", c] => do pure (.chr (← jChar c))
  | .arr #[.str "set", n, .arr items] => do pure (.set (← jBool n) (← items.toList.mapM jItem))
  | .arr #[.str "esc", k, n] => do pure (.esc (← jEsc k) (← jBool n))
  | .arr #[.str "seq", a, b] => do pure (.seq (← jRx a) (← jRx b))
  | .arr #[.str "alt", a, b] => do pure (.alt (← jRx a) (← jRx b))
  | .arr #[.str "grp", .null, r] => do pure (.grp none (← jRx r))
  | .arr #[.str "grp", n, r] => do pure (.grp (some (← jText n)) (← jRx r))
  | .arr #[.str "rep", g, m, n, r] => do
    let mx : Option Nat ← (match n with | .null => pure none | n => do let k : Nat ← fromJson? n; pure (some k))
    let mn : Nat ← fromJson? m
    pure (.rep (← jBool g) mn mx (← jRx r))
  | _ => throw "bad rx"

def jPred (j : Json) : Except String Pred :=
  match j with
  | .arr #[.str "c", b] => do pure (.const (← jBool b))
  | .arr #[.str "e", n, v] => do pure (.eq (← jText n) (← jText v))
  | _ => throw "bad pred"

def valJson : Val → List Json
  | .str s => [Json.str "s", tJson s]
  | .segs xs => [Json.str "t", Json.arr (xs.map tJson).toArray]

def envJson (e : Env) : Json := Json.arr (e.map fun (n, v) => Json.arr (tJson n :: valJson v).toArray).toArray

def outJson (rl : List Route) : Outcome → Json
  | .urlDecode => Json.str "urldecode"
  | .noMatch => Json.str "none"
  | .hit i e =>
    let id := match rl[i]? with | some r => r.id | none => 0
    Json.mkObj [("id", toJson id), ("idx", toJson i), ("match", envJson e)]

/-- the property's right-hand side, not the loop: the least index whose route qualifies -/
def specOutcome (u : Ucd) (rl : List Route) (raw : Option Trav.Bytes) : Outcome :=
  match requestPath raw with
  | none => .urlDecode
  | some p =>
    let q (r : Route) : Option Env :=
      match matchToks u r.toks p with
      | some e => if predsHold e r.preds then some e else none
      | none => none
    match (List.range rl.length).find? (fun i => match rl[i]? with | some r => (q r).isSome | none => false) with
    | none => .noMatch
    | some i => match rl[i]? with
      | some r => (match q r with | some e => .hit i e | none => .noMatch)
      | none => .noMatch

def asciiTable (p : Char → Bool) : List Nat := (List.range 128).filter fun n => p (Char.ofNat n)

def toksOk : List Tok → Bool
  | [] => true
  | .ph _ rx :: ts => Rx.ok rx && toksOk ts
  | _ :: ts => toksOk ts

def main : IO Unit := jsonDriver fun j => do
  if let .ok (Json.str "tables") := j.getObjVal? "op" then
    return Json.mkObj [
      ("word", toJson (asciiTable (isWord Ucd.ascii))), ("digit", toJson (asciiTable (isDigit Ucd.ascii))),
      ("space", toJson (asciiTable (isSpace Ucd.ascii))), ("special", toJson (asciiTable reSpecial))]
  let uj ← getField j "ucd"
  let u : Ucd := ⟨← jText (← getField uj "word"), ← jText (← getField uj "digit"), ← jText (← getField uj "space")⟩
  let rxs ← match (← getField j "rxlib") with
    | .arr xs => xs.toList.mapM jRx
    | _ => throw "bad rxlib"
  let lib := mkLib rxs
  let routesJ ← match (← getField j "routes") with
    | .arr xs => pure xs.toList
    | _ => throw "bad routes"
  -- optional add_route layer: "top" (Configurator(route_prefix=…)), "prefixes" (include stack, outermost first),
  -- "usepath" (pattern given as path=), "inherit" (inherit_slash), "nopattern" (neither pattern nor path)
  let optText (r : Json) (k : String) : Except String (Option Text) :=
    match r.getObjVal? k with
    | .ok .null => pure none
    | .ok v => do pure (some (← jText v))
    | .error _ => pure none
  let added ← routesJ.mapM fun r => do
    let name ← jText (← getField r "name")
    let pattern ← jText (← getField r "pattern")
    let preds ← match (← getField r "preds") with
      | .arr ps => ps.toList.mapM jPred
      | _ => throw "bad preds"
    let static : Bool ← getAs r "static"
    let top ← optText r "top"
    let prefixes ← match r.getObjVal? "prefixes" with
      | .ok (.arr xs) => xs.toList.mapM fun x => (match x with | .null => pure none | v => do pure (some (← jText v)))
      | _ => pure []
    let flag (k : String) : Bool := match r.getObjVal? k with | .ok (.bool true) => true | _ => false
    let kindOf (k : String) : Except String BuiltinKind :=
      match k with
      | "xhr" => pure .xhr | "request_method" => pure .requestMethod | "path_info" => pure .pathInfo
      | "request_param" => pure .requestParam | "header" => pure .header | "accept" => pure .accept
      | "is_authenticated" => pure .isAuthenticated | "effective_principals" => pure .effectivePrincipals
      | "traverse" => pure .traverse | _ => throw s!"unknown built-in predicate keyword {k}"
    let builtins ← match r.getObjVal? "builtins" with
      | .ok (.arr xs) => xs.toList.mapM fun x => (match x with
          | .arr #[.str k, .null] => do pure ((← kindOf k), (none : Option Pred))
          | .arr #[.str k, .bool b] => do pure ((← kindOf k), some (Pred.const b))
          | _ => throw "bad builtins entry")
      | _ => pure []
    let args : RouteArgs :=
      { name := name, pattern := if flag "usepath" || flag "nopattern" then none else some pattern,
        path := if flag "usepath" then some pattern else none, inheritSlash := flag "inherit", static := static, preds := preds,
        builtins := builtins }
    pure (name, addRoute (prefixAt top prefixes) args)
  let decls := added.filterMap fun (x : Text × Except AddErr (Text × List Pred × Bool)) =>
    match x.2 with
    | .ok (pat, preds, static) => some ({ name := x.1, compiled := compileRoute u lib pat, preds := preds, static := static } : Decl)
    | .error _ => none
  let addJ := added.map fun (x : Text × Except AddErr (Text × List Pred × Bool)) =>
    match x.2 with
    | .ok (pat, _, _) => tJson pat
    | .error .patternNone => Json.str "patternNone"
    | .error .inheritSlash => Json.str "inheritSlash"
  let raw : Option Trav.Bytes ← match (← getField j "path") with
    | .null => pure none
    | p => do
      let bs : List Nat ← fromJson? p
      pure (some (bs.map UInt8.ofNat))
  let m := runDecls Mapper.empty decls
  let rl := m.routelist
  let compileJ := decls.map fun d => match d.compiled with
    | .ok _ => Json.str "ok"
    | .error .reError => Json.str "reerror"
    | .error .unsupported => Json.str "unsupported"
  let regexJ := decls.map fun d => match d.compiled with
    | .ok ts => tJson (regexText ts)
    | .error _ => Json.null
  let genJ := decls.map fun d => match d.compiled with
    | .ok ts => tJson (genTemplate ts)
    | .error _ => Json.null
  let unsupported := decls.any (fun d => match d.compiled with
    | .error .unsupported => true
    | .ok ts => !toksOk ts
    | _ => false)
  let base := [
    ("rxtext", Json.arr (rxs.map fun r => tJson (Rx.print r)).toArray),
    ("rxok", toJson (rxs.map Rx.ok)),
    ("connected", Json.arr addJ.toArray),
    ("compile", Json.arr compileJ.toArray), ("regex", Json.arr regexJ.toArray), ("gen", Json.arr genJ.toArray),
    ("routelist", toJson (rl.map (·.id))), ("statics", toJson (m.statics.map (·.id))),
    ("unsupported", toJson unsupported)]
  if unsupported then
    return Json.mkObj base
  let out := mapperCall u rl raw
  let calls := match requestPath raw with
    | some p => predTrace u p rl
    | none => []
  let nmatch := match requestPath raw with
    | some p => rl.map fun (r : Route) => (matchAll u .endOfString r.toks p).length
    | none => []
  return Json.mkObj (base ++ [
    ("outcome", outJson rl out), ("spec", outJson rl (specOutcome u rl raw)),
    ("calls", toJson (calls.map fun (a, b) => [a, b])), ("nmatch", toJson nmatch)])
