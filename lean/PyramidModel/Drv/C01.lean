-- driver stub for C01 (replaced when the model is built)
def main : IO Unit := pure ()
