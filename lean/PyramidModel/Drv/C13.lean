import PyramidModel.Prelude
import PyramidModel.Skeleton
import PyramidModel.Pipeline
import PyramidModel.Gen.C13Skeleton
/-! Driver for C13: one JSON case per line.

{"op":"pipeline","xv":b,"base":n,"req":REQ}
   REQ = {"tw":b,"route":b,"faults":[[point,kind],…],"regs":[[stage,"resp"|"fin",kind|null],…] (stage = point | ["cb",parent id]),"xx":kind|null,
          "xo":null|[kind,kind|null,otherRegistry],"subs":[REQ,…]}
   -> {"tree":TREE}   TREE = {"own":[event,…],"out":"resp"|"plain"|"http","depth":n,"kids":[TREE,…],"left":[resp,fin]}
{"op":"policy","policy":"simple"|"retry","xv":b,"base":n,"reqs":[REQ,…]}
   -> {"attempts":[TREE,…],"post":TREE|null,"out":…,"depth":n}     (custom execution policies)
{"op":"exec","entry":name,"depth":n,"raises":[[site,k],…],"takes":[[site,k],…],"iters":[[site,k,n],…],"quiet":[site,…]}
   -> {"depth":n,"outcome":"normal"|"returned"|"raised","trace":[[site,depth,flag],…] (oldest first),
       "balanced":b,"opens":b,"closes":b}
{"op":"sites"} -> {"sites":[name,…],"locs":["file:l:c:el:ec"|"-",…],"noRaise":[…],"entries":[name,…]}
{"op":"term","entry":name} -> {"term":TERM}
-/
open Pyr Lean
open Pyr.Skel (Stmt Oracle Cfg exec)
open Pyr.Pipeline (Req Reqs Tr Ev Outcome Point Kind CbKind Reg Exc)

def parseKind (s : String) : Except String Kind :=
  match s with
  | "plain" => pure .plain
  | "http" => pure .http
  | "soft" => pure .soft
  | _ => throw s!"bad kind {s}"

def parsePoint (s : String) : Except String Point :=
  match s with
  | "tweenOverIn" => pure .tweenOverIn | "tweenUnderIn" => pure .tweenUnderIn | "newRequest" => pure .newRequest
  | "routePred" => pure .routePred | "beforeTraversal" => pure .beforeTraversal | "routeFactory" => pure .routeFactory
  | "rootFactory" => pure .rootFactory | "traverser" => pure .traverser | "contextFound" => pure .contextFound
  | "viewPred" => pure .viewPred | "perm" => pure .perm | "viewBody" => pure .viewBody | "renderer" => pure .renderer
  | "tweenUnderOut" => pure .tweenUnderOut | "excView" => pure .excView | "tweenOverOut" => pure .tweenOverOut
  | "newResponse" => pure .newResponse
  | _ => throw s!"bad point {s}"

def pointName : Point → String
  | .tweenOverIn => "tweenOverIn" | .tweenUnderIn => "tweenUnderIn" | .newRequest => "newRequest"
  | .routePred => "routePred" | .beforeTraversal => "beforeTraversal" | .routeFactory => "routeFactory"
  | .rootFactory => "rootFactory" | .traverser => "traverser" | .contextFound => "contextFound"
  | .viewPred => "viewPred" | .perm => "perm" | .viewBody => "viewBody" | .renderer => "renderer"
  | .tweenUnderOut => "tweenUnderOut" | .excView => "excView" | .tweenOverOut => "tweenOverOut"
  | .newResponse => "newResponse"

def optKind (j : Json) : Except String (Option Kind) :=
  match j with
  | .null => pure none
  | .str s => do pure (some (← parseKind s))
  | _ => throw "bad optional kind"

def optField (j : Json) (k : String) : Json :=
  match j.getObjVal? k with
  | .ok v => v
  | .error _ => .null

def boolField (j : Json) (k : String) : Bool :=
  match optField j k with
  | .bool b => b
  | _ => false

def arrField (j : Json) (k : String) : Except String (List Json) :=
  match optField j k with
  | .null => pure []
  | .arr xs => pure xs.toList
  | _ => throw s!"field {k} is not a list"

partial def parseReq (j : Json) : Except String Req := do
  let faults ← (← arrField j "faults").mapM fun f => do
    match f with
    | .arr #[.str p, .str k] => pure ((← parsePoint p), (← parseKind k))
    | _ => throw "bad fault"
  let regs ← (← arrField j "regs").mapM fun r => do
    match r with
    | .arr #[stj, .str kd, f] =>
      let kind ← match kd with
        | "resp" => pure CbKind.resp
        | "fin" => pure CbKind.fin
        | _ => throw "bad callback kind"
      let stage ← match stj with
        | .str st => do pure (Pipeline.Stage.hook (← parsePoint st))
        | .arr #[.str "cb", pj] => do
          let pn : Nat ← fromJson? pj
          pure (Pipeline.Stage.cb pn)
        | _ => throw "bad stage"
      pure (Reg.mk stage kind (← optKind f))
    | _ => throw "bad reg"
  let xx ← optKind (optField j "xx")
  let xo ← match optField j "xo" with
    | .null => pure none
    | .arr #[.str k, f, .bool other] => do pure (some ((← parseKind k), (← optKind f), other))
    | _ => throw "bad xo"
  let subs ← (← arrField j "subs").mapM parseReq
  let cfg : Pipeline.Cfg := { useTweens := boolField j "tw", route := boolField j "route", faults := faults,
                              regs := regs, explicitXv := xx, explicitOther := xo }
  pure (.mk cfg (subs.foldr (fun r rs => Reqs.cons r rs) Reqs.nil))

def cbName : CbKind → String
  | .resp => "resp"
  | .fin => "fin"

def evJson : Ev → Json
  | .hook p c d => toJson [Json.str "hook", Json.str (pointName p), toJson c, toJson d]
  | .reg k i => toJson [Json.str "reg", Json.str (cbName k), toJson i]
  | .cb k i c d => toJson [Json.str "cb", Json.str (cbName k), toJson i, toJson c, toJson d]
  | .chain b => toJson [Json.str "chain", toJson b]
  | .resume c d => toJson [Json.str "resume", toJson c, toJson d]
  | .sub i => toJson [Json.str "sub", toJson i]

def outName : Outcome → String
  | .resp => "resp"
  | .raised .plain => "plain"
  | .raised .http => "http"

partial def trJson : Tr → Json
  | .node own out d kids left => Json.mkObj [
      ("left", toJson [left.1, left.2]),
      ("own", Json.arr (own.map evJson).toArray),
      ("out", Json.str (outName out)),
      ("depth", toJson d),
      ("kids", Json.arr (kids.map trJson).toArray)]

def pairsOf (j : Json) (k : String) : Except String (List (Nat × Nat)) := do
  (← arrField j k).mapM fun x => do
    let l : List Nat ← fromJson? x
    match l with
    | [a, b] => pure (a, b)
    | _ => throw "bad pair"

def triplesOf (j : Json) (k : String) : Except String (List (Nat × Nat × Nat)) := do
  (← arrField j k).mapM fun x => do
    let l : List Nat ← fromJson? x
    match l with
    | [a, b, c] => pure (a, b, c)
    | _ => throw "bad triple"

def outcomeName : Skel.Outcome → String
  | .normal => "normal"
  | .returned => "returned"
  | .raised => "raised"

/-- a skeleton as JSON (for the harness's oracle search): ["call",s] ["seq",a,b] ["ite",s,a,b] ["loop",s,b]
["scope",b] ["fin",b,f] ["exc",b,h] "skip" "push" "pop" "ret" "raise" "unknown" -/
partial def stmtJson : Stmt → Json
  | .skip => Json.str "skip"
  | .push => Json.str "push"
  | .pop => Json.str "pop"
  | .ret => Json.str "ret"
  | .raise => Json.str "raise"
  | .unknown => Json.str "unknown"
  | .call s => toJson [Json.str "call", toJson s]
  | .seq a b => toJson [Json.str "seq", stmtJson a, stmtJson b]
  | .ite s a b => toJson [Json.str "ite", toJson s, stmtJson a, stmtJson b]
  | .loop s b => toJson [Json.str "loop", toJson s, stmtJson b]
  | .scope b => toJson [Json.str "scope", stmtJson b]
  | .tryFinally b f => toJson [Json.str "fin", stmtJson b, stmtJson f]
  | .tryExcept b h => toJson [Json.str "exc", stmtJson b, stmtJson h]

def main : IO Unit := jsonDriver fun j => do
  let op : String ← getAs j "op"
  match op with
  | "pipeline" =>
    let xv := boolField j "xv"
    let base : Nat ← getAs j "base"
    let req ← parseReq (← getField j "req")
    let stack0 : List Pipeline.Path := List.replicate base [999999]
    let (tr, _, _) := Pipeline.runTop xv req stack0
    return Json.mkObj [("tree", trJson tr)]
  | "policy" =>
    let xv := boolField j "xv"
    let base : Nat ← getAs j "base"
    let pol : String ← getAs j "policy"
    let reqs ← (← arrField j "reqs").mapM parseReq
    let stack0 : List Pipeline.Path := List.replicate base [999999]
    match pol, reqs with
    | "simple", [r] =>
      let (tr, post, out, st) := Pipeline.runSimple xv r stack0
      return Json.mkObj [("attempts", Json.arr #[trJson tr]),
        ("post", match post with | some p => trJson p | none => Json.null),
        ("out", Json.str (outName out)), ("depth", toJson st.length)]
    | "retry", _ =>
      let (trs, out, st) := Pipeline.runRetry xv reqs 0 stack0
      return Json.mkObj [("attempts", Json.arr (trs.map trJson).toArray), ("post", Json.null),
        ("out", Json.str (outName out)), ("depth", toJson st.length)]
    | _, _ => throw "bad policy case"
  | "exec" =>
    let entry : String ← getAs j "entry"
    let depth : Nat ← getAs j "depth"
    let raises ← pairsOf j "raises"
    let takes ← pairsOf j "takes"
    let iters ← triplesOf j "iters"
    let quiet : List Nat ← (do
      let xs ← arrField j "quiet"
      xs.mapM fun x => (fromJson? x : Except String Nat))
    match Gen.C13.allDefs.find? (fun d => d.1 == entry) with
    | none => throw s!"no skeleton named {entry}"
    | some (_, s) =>
      let o : Oracle := {
        raises := fun st k => raises.contains (st, k),
        takes := fun st k => takes.contains (st, k),
        iters := fun st k => match iters.find? (fun t => t.1 == st && t.2.1 == k) with
          | some t => t.2.2
          | none => 0 }
      let (c, oc) := exec o s { depth := depth }
      let q := Skel.quietList (Gen.C13.noRaise ++ quiet)
      return Json.mkObj [
        ("depth", toJson c.depth),
        ("outcome", Json.str (outcomeName oc)),
        ("trace", Json.arr (c.trace.reverse.map fun v => toJson [toJson v.1, toJson v.2.1, toJson v.2.2]).toArray),
        ("recognised", toJson (!s.hasUnknown)),
        ("balanced", toJson (Skel.balanced q s)),
        ("opens", toJson (Skel.opens q s)),
        ("closes", toJson (Skel.closes q s))]
  | "term" =>
    let entry : String ← getAs j "entry"
    match Gen.C13.allDefs.find? (fun d => d.1 == entry) with
    | none => throw s!"no skeleton named {entry}"
    | some (_, s) => return Json.mkObj [("term", stmtJson s), ("recognised", toJson (!s.hasUnknown))]
  | "sites" =>
    return Json.mkObj [
      ("sites", toJson Gen.C13.siteNames),
      ("locs", toJson Gen.C13.siteLocs),
      ("noRaise", toJson Gen.C13.noRaise),
      ("unknowns", toJson Gen.C13.unknowns),
      ("entries", toJson (Gen.C13.allDefs.map (·.1)))]
  | _ => throw s!"bad op {op}"
