-- driver stub for C13 (replaced when the model is built)
def main : IO Unit := pure ()
