import PyramidModel.Prelude
import PyramidModel.Security
/-! Driver for C05: one JSON case per line.
in : {"pre":[view…], "stmts":[stmt…], "deny":[[ctx,perm],…], "excsro":[[kind,[cls,…]],…],
      "req":{"ctx","sro","ifaces","excifaces","wrapifaces","name","preds"}, "probe":{"kind":"router"|"render"|"vep","secure":b}}
     stmt = {"k":"policy","legacy":b} | {"k":"defperm","perm":P} | {"k":"view","dir":n, …view} | {"k":"other","phase":n}
     view = {"tag","name","route","cls","isexc","exconly","perm":P,"order","preds","wrapper":null|n,"act"[,"vdown":[P],"vdbase":[P]]}
     P = null | "npr" | n
out: {"trace":[["p",ctx,perm,ans] | ["b",tag,ctx] | ["x",kind]], "out":["resp",tag]|["none"]|["raised",k]|["perm",b]|["mismatch"],
      "guards":[[tag,exc,guard|null],…], "exec":[phase…], "sorted":null|[names] (sorter model on "derivers"), "chain":[names]}
   optional input: "chain":[names outermost first] (the live sorter's order), "derivers":[{"name","under":null|[…],"over":null|[…]}] -/
open Pyr Pyr.Security Lean

def parsePerm (j : Json) : Except String PermArg :=
  match j with
  | .null => pure .absent
  | .str "npr" => pure .npr
  | j => do
    let n : Nat ← fromJson? j
    pure (.name n)

def parseView (j : Json) : Except String ViewStmt := do
  let tag : Nat ← getAs j "tag"
  let name : Nat ← getAs j "name"
  let route : Nat ← getAs j "route"
  let cls : Nat ← getAs j "cls"
  let isexc : Bool ← getAs j "isexc"
  let exconly : Bool ← getAs j "exconly"
  let perm ← parsePerm (← getField j "perm")
  let order : Nat ← getAs j "order"
  let preds : List Nat ← getAs j "preds"
  let wj ← getField j "wrapper"
  let wrapper : Option Nat ← match wj with
    | .null => pure none
    | x => do let n : Nat ← fromJson? x; pure (some n)
  let act : Nat ← getAs j "act"
  let vd := fun (k : String) => (match j.getObjVal? k with
    | .ok (.arr #[x]) => do let p ← parsePerm x; pure (some p)
    | _ => pure none : Except String (Option PermArg))
  let vdOwn ← vd "vdown"
  let vdBase ← vd "vdbase"
  let deco : Bool := match j.getObjVal? "deco" with
    | .ok (.bool b) => b
    | _ => false
  pure { tag, name, route, ctxClass := cls, isExcCtx := isexc, excOnly := exconly, perm, order, preds, wrapper, act,
         deco, vdOwn, vdBase }

def parseStmt (j : Json) : Except String Stmt := do
  let k : String ← getAs j "k"
  match k with
  | "policy" => do
    let legacy : Bool ← getAs j "legacy"
    pure (.setPolicy legacy)
  | "defperm" => do
    let p ← parsePerm (← getField j "perm")
    pure (.setDefault p)
  | "view" => do
    let dir : Nat ← getAs j "dir"
    let v ← parseView j
    pure (.addView dir v)
  | "other" => do
    let ph : Int ← getAs j "phase"
    pure (.other ph)
  | _ => throw "bad stmt"

def evJson : Event → Json
  | .permits c p a => toJson [toJson "p", toJson c, toJson p, toJson a]
  | .body t _ c _ => toJson [toJson "b", toJson t, toJson c]
  | .mainRaised k => toJson [toJson "x", toJson k]
  | .deco t c _ => toJson [toJson "d", toJson t, toJson c]

def outJson : Outcome → Json
  | .resp t => toJson [toJson "resp", toJson t]
  | .none => toJson [toJson "none"]
  | .mismatch => toJson [toJson "mismatch"]
  | .raised k => toJson [toJson "raised", toJson k]
  | .perm b => toJson [toJson "perm", toJson b]

def parseStrs (j : Json) : Except String (Option (List String)) :=
  match j with
  | .null => pure none
  | x => do let l : List String ← fromJson? x; pure (some l)

def parseDeriverOp (j : Json) : Except String DeriverOp := do
  let name : String ← getAs j "name"
  let under ← parseStrs (← getField j "under")
  let over ← parseStrs (← getField j "over")
  pure { name, under, over }

def main : IO Unit := jsonDriver fun j => do
  let prej : List Json ← getAs j "pre"
  let pre ← prej.mapM parseView
  let stj : List Json ← getAs j "stmts"
  let stmts ← stj.mapM parseStmt
  let deny : List (List Nat) ← getAs j "deny"
  let exs : List (Nat × List Nat) ← getAs j "excsro"
  let rq ← getField j "req"
  let q : Req := { ctx := ← getAs rq "ctx", sro := ← getAs rq "sro", ifaces := ← getAs rq "ifaces",
                   excIfaces := ← getAs rq "excifaces", wrapIfaces := ← getAs rq "wrapifaces",
                   name := ← getAs rq "name", preds := ← getAs rq "preds" }
  let pb ← getField j "probe"
  let kind : String ← getAs pb "kind"
  let w : World := { pol := fun c p => !(deny.contains [c, p]),
                     excSro := fun k => (exs.lookup k).getD [] }
  -- the framework's own exception-response view is committed before the user's scope (setup_registry)
  let r0 := configure {} (pre.map fun v => Stmt.addView 0 v)
  let reg := configure r0 stmts
  -- the deriver chain of THIS application: the names the live sorter returned (input), the two outer wrappers in
  -- front; the sorter model's prediction for the same additions is printed next to it
  let opsj : List Json := match j.getObjVal? "derivers" with
    | .ok (.arr a) => a.toList
    | _ => []
  let ops ← opsj.mapM parseDeriverOp
  let chainIn : Option (List String) := match j.getObjVal? "chain" with
    | .ok x => (fromJson? x : Except String (List String)).toOption
    | _ => none
  let chain : List Layer := match chainIn with
    | some l => l.map layerOf
    | none => chain
  let res ← match kind with
    | "router" => pure (handle chain reg.views w q)
    | "render" => do
      let secure : Bool ← getAs pb "secure"
      pure (render chain reg.views w q secure)
    | "vep" => pure (vep reg.views w q)
    | _ => throw "bad probe"
  return Json.mkObj [
    ("trace", toJson (res.1.map evJson)),
    ("out", outJson res.2),
    ("guards", toJson (reg.views.map fun d => toJson [toJson d.tag, toJson d.exc, toJson d.guard])),
    ("exec", toJson ((execOrder stmts).map (·.phase))),
    ("policy", toJson reg.policy),
    ("sorted", toJson (sortedDerivers ops)),
    ("chain", toJson chainNames)]
