-- driver stub for C05 (replaced when the model is built)
def main : IO Unit := pure ()
