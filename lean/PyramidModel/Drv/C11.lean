import PyramidModel.Prelude
import PyramidModel.Lemmas.Acl
/-! Driver for C11: one JSON case per line.
in : {"lineage":[null | [[action,who,perms],…],…], "princs":[…], "perm":n}
     action 0=Allow 1=Deny 2=other ; perms = n | [n,…] | "all"
out: {"permits":b, "at":null|[k,i], "allowed":[sorted…], "spec":b, "wf":b} -/
open Pyr Pyr.Acl Lean

def parsePerms (j : Json) : Except String Perms :=
  match j with
  | .str "all" => pure .all
  | .arr xs => do
    let ps ← xs.toList.mapM fun x => (fromJson? x : Except String Nat)
    pure (.many ps)
  | j => do
    let n : Nat ← fromJson? j
    pure (.one n)

def parseAce (j : Json) : Except String Ace := do
  match j with
  | .arr #[a, w, p] =>
    let an : Nat ← fromJson? a
    let act ← match an with
      | 0 => pure Action.allow
      | 1 => pure Action.deny
      | 2 => pure Action.other
      | _ => throw "bad action"
    let who : Nat ← fromJson? w
    let perms ← parsePerms p
    pure ⟨act, who, perms⟩
  | _ => throw "bad ace"

def parseNode (j : Json) : Except String (Option Acl) :=
  match j with
  | .null => pure none
  | .arr xs => do
    let aces ← xs.toList.mapM parseAce
    pure (some aces)
  | _ => throw "bad node"

def main : IO Unit := jsonDriver fun j => do
  let lj ← getField j "lineage"
  let nodes ← match lj with
    | .arr xs => xs.toList.mapM parseNode
    | _ => throw "bad lineage"
  let princs : List Nat ← getAs j "princs"
  let perm : Nat ← getAs j "perm"
  let d := decideAt princs perm nodes 0
  let at_ : Json := match d with
    | some (k, i, _) => toJson [k, i]
    | none => Json.null
  let spec : Bool := match firstHit princs perm nodes with
    | some a => a.action == .allow
    | none => false
  let allowed := (principalsAllowed perm nodes).eraseDups.toArray.qsort (· < ·)
  return Json.mkObj [
    ("permits", toJson (permits princs perm nodes)),
    ("at", at_),
    ("allowed", toJson allowed),
    ("spec", toJson spec),
    ("wf", toJson (lineageWF nodes))]
