import PyramidModel.Actions
/-!
C08 — model of "what a commit does to the registry", abstract enough to speak about *every* configuration
program (core Lean only; linked into `drv_c08`).

* The registry is an abstract store `Slot → Val`; a slot is a family (`Fam`: one per utility / adapter
  interface the configuration directives of `src/pyramid/config/*.py` touch) and a key (utility name, route
  name, view triad, discriminator; `0` for single-valued families).
* An executed action is a `Footprint`: the slots it reads, the slots it writes and its semantics
  `Store → Store`.  `Respects` says the semantics stays inside the footprint (frame + read-determinacy).
* A program is a list of C04 actions `Pyr.Actions.Act` (id, discriminator, phase = `order`, include path) —
  the expansion of a list of statements (`Stmt`, `expand`: `add_route` declares two actions, `add_static_view`
  four, …) — together with an environment `Env : id → Footprint`.
* Execution is C04's: `commit` runs `Pyr.Actions.run` (the model of `ActionState.execute_actions` /
  `resolveConflicts`, src/pyramid/config/actions.py:209-330, 352-502) and folds the semantics of the executed
  ids over the store.  By C04's `conflict_free_is_sorted` that is the program stably sorted by
  (phase, declaration index) whenever the discriminators are pairwise distinct.
* `Kind` names every `self.action(…)`/`config.action(…)` call site of `src/pyramid/config/*.py`; the generated
  table `Gen/C08Phases.lean` has one `Row` per call site (translator `extract/c08.py`); the hand-written
  `ConfigFootprints.lean` says which families a kind reads / writes.
* `herbrand` is the free semantics (a written slot receives a term naming the action and the values it read):
  the driver runs it to decide whether two variants of a program can be told apart by *some* semantics.

`Deferred` discriminators (`add_view`, views.py:879-906): the program carries the value the thunk evaluates to
(an input; C04 models the thunk itself); *when* the thunk reads the registry is modelled by `KFoot.discReads`
together with the `deferred` shape of the generated row.
-/
namespace Pyr.ConfigOrder
open Pyr.Actions

/-- registry families (utility / adapter interfaces, or the content of a container utility) -/
inductive Fam where
  | viewDerivers | predListView | predListRoute | predListSubscriber | rendererFactory
  | securityPolicy | authnPolicy | authzPolicy | defaultPermission | defaultCSRFOptions | csrfStoragePolicy
  | acceptOrder | routeRequest | routesMapper | viewSlot | rootFactory | sessionFactory | requestFactory
  | responseFactory | requestExtensions | executionPolicy | localeNegotiator | translationDirs | viewMapper
  | tweens | subscribers | responseAdapter | traverser | resourceUrl | staticRegistrations | cacheBusters
  | assetOverrides
deriving DecidableEq, Repr, Inhabited

def Fam.all : List Fam :=
  [.viewDerivers, .predListView, .predListRoute, .predListSubscriber, .rendererFactory, .securityPolicy,
   .authnPolicy, .authzPolicy, .defaultPermission, .defaultCSRFOptions, .csrfStoragePolicy, .acceptOrder,
   .routeRequest, .routesMapper, .viewSlot, .rootFactory, .sessionFactory, .requestFactory, .responseFactory,
   .requestExtensions, .executionPolicy, .localeNegotiator, .translationDirs, .viewMapper, .tweens,
   .subscribers, .responseAdapter, .traverser, .resourceUrl, .staticRegistrations, .cacheBusters,
   .assetOverrides]

def Fam.name : Fam → String
  | .viewDerivers => "viewDerivers" | .predListView => "predListView" | .predListRoute => "predListRoute"
  | .predListSubscriber => "predListSubscriber" | .rendererFactory => "rendererFactory"
  | .securityPolicy => "securityPolicy" | .authnPolicy => "authnPolicy" | .authzPolicy => "authzPolicy"
  | .defaultPermission => "defaultPermission" | .defaultCSRFOptions => "defaultCSRFOptions"
  | .csrfStoragePolicy => "csrfStoragePolicy" | .acceptOrder => "acceptOrder" | .routeRequest => "routeRequest"
  | .routesMapper => "routesMapper" | .viewSlot => "viewSlot" | .rootFactory => "rootFactory"
  | .sessionFactory => "sessionFactory" | .requestFactory => "requestFactory"
  | .responseFactory => "responseFactory" | .requestExtensions => "requestExtensions"
  | .executionPolicy => "executionPolicy" | .localeNegotiator => "localeNegotiator"
  | .translationDirs => "translationDirs" | .viewMapper => "viewMapper" | .tweens => "tweens"
  | .subscribers => "subscribers" | .responseAdapter => "responseAdapter" | .traverser => "traverser"
  | .resourceUrl => "resourceUrl" | .staticRegistrations => "staticRegistrations"
  | .cacheBusters => "cacheBusters" | .assetOverrides => "assetOverrides"

def Fam.ofName (s : String) : Option Fam := Fam.all.find? (fun f => f.name == s)

structure Slot where
  fam : Fam
  key : Nat
deriving DecidableEq, Repr, Inhabited

abbrev Val := List Nat
abbrev Store := Slot → Val

/-- what one executed action does -/
structure Footprint where
  reads : List Slot
  writes : List Slot
  sem : Store → Store

/-- the semantics stays inside the declared footprint: slots outside `writes` keep their value (frame), and
the values written depend only on the values of the slots in `reads` -/
def Respects (f : Footprint) : Prop :=
  (∀ (s : Store) (x : Slot), x ∉ f.writes → f.sem s x = s x) ∧
  (∀ (s s' : Store), (∀ x ∈ f.reads, s x = s' x) → ∀ x ∈ f.writes, f.sem s x = f.sem s' x)

/-- neither action writes what the other reads or writes -/
def Indep (f g : Footprint) : Prop :=
  (∀ x ∈ f.writes, x ∉ g.reads ∧ x ∉ g.writes) ∧ (∀ x ∈ g.writes, x ∉ f.reads ∧ x ∉ f.writes)

def indepB (f g : Footprint) : Bool :=
  f.writes.all (fun x => !g.reads.contains x && !g.writes.contains x) &&
  g.writes.all (fun x => !f.reads.contains x && !f.writes.contains x)

/-- executing the two in either order gives the same store -/
def Commutes (f g : Footprint) : Prop := ∀ s : Store, f.sem (g.sem s) = g.sem (f.sem s)

/-- action id ↦ what it does -/
abbrev Env := Nat → Footprint

/-- run the actions with the given ids, in list order -/
def runIds (env : Env) (ids : List Nat) (s : Store) : Store := ids.foldl (fun s i => (env i).sem s) s

/-- run a list of actions, in list order -/
def runActs (env : Env) (l : List Act) (s : Store) : Store := l.foldl (fun s a => (env a.id).sem s) s

/-- `Configurator.commit()` of a program without re-entrancy: `execute_actions` (C04's model) decides which
actions run and in which order; `none` when it reports a conflict / refuses. -/
def commit (env : Env) (prog : List Act) (s : Store) : Option Store :=
  match Actions.run noKids (prog.length + 1) prog with
  | (.ok, ids) => some (runIds env ids s)
  | _ => none

/-- a configuration statement = the actions its directive declares, in the order it declares them -/
structure Stmt where
  acts : List Act
  /-- the package of the configurator that issues the statement (`Configurator.include` gives the nested configurator
  `package_of(module of the includeme)`).  What a statement MEANS is a function of its own arguments, this package
  (relative renderer / asset specs, relative dotted names, relative translation dirs are resolved against it) and the
  route prefix; the meaning is fixed when the statement is issued and travels with the statement: the actions in
  `acts` (ids, discriminators, footprints, semantics `Env`) are those of *this* statement in *this* package.  Moving
  the statement to another place of the program, or its package's include before/after another package's include,
  does not change `pkg`, so `statements_order_irrelevant` speaks about programs spread over any number of packages. -/
  pkg : Nat := 0
deriving Repr

/-- a program of statements expands to the list of declared actions -/
def expand (stmts : List Stmt) : List Act := stmts.flatMap (·.acts)

/-- the same declaration issued from another place of the include tree: only the include path changes
(`configurator.includepath = self.includepath + (spec,)`, config/__init__.py `include`) -/
def repath (p : Nat → List Nat) (a : Act) : Act := { a with path := p a.id }

/-! ## free semantics -/

/-- length-prefixed flattening, so that the term of a written slot determines what was read -/
def encodeVals : List Val → Val
  | [] => []
  | v :: vs => v.length :: v ++ encodeVals vs

/-- the free footprint: every written slot gets `[id, fam-independent tag of the slot key] ++ values read` -/
def herbrand (id : Nat) (reads writes : List Slot) : Footprint :=
  { reads := reads, writes := writes,
    sem := fun s x => if x ∈ writes then id :: x.key :: encodeVals (reads.map s) else s x }

/-! ## the multiview merge -/

/-- `self.views.append((order, view, phash)); self.views.sort(key=itemgetter(0))` on an order-sorted list, the
list flattened to `[order₁, tag₁, order₂, tag₂, …]`: a stable sort puts the new entry behind every entry whose
order is ≤ its own.  (Conflict-free programs: the phash of the new entry is not in the list, so the
replace-same-phash branch 95-99 is not taken.) -/
def mvAdd : List Nat → Nat → Nat → List Nat
  | o' :: t' :: rest, o, t => if o' ≤ o then o' :: t' :: mvAdd rest o t else o :: t :: o' :: t' :: rest
  | _, o, t => [o, t]

/-- `MultiView.__call__` / `match`: the first view (in list order) whose predicates hold -/
def mvFirst (holds : Nat → Bool) : List Nat → Option Nat
  | _ :: t :: rest => if holds t then some t else mvFirst holds rest
  | _ => none

/-- the part of `register_view` (views.py:1033-1121) that matters for order: read-modify-write of one slot -/
def viewReg (x : Slot) (order tag : Nat) : Footprint :=
  { reads := [x], writes := [x], sem := fun s y => if y = x then mvAdd (s x) order tag else s y }

/-- the footprint the driver gives a view registration whose predicate `order` is known: the view slots receive
the merged list (`mvAdd`), and a private auxiliary slot receives the free term of everything ELSE the action read
(so that two runs agree on it only if the derived view was built from the same registrations) -/
def viewFp (id vorder : Nat) (reads writes : List Slot) : Footprint :=
  let aux : Slot := ⟨.viewSlot, 1000000 + id⟩
  let rd := reads.filter (fun x => !writes.contains x)
  { reads := reads, writes := aux :: writes,
    sem := fun s x =>
      if x = aux then id :: encodeVals (rd.map s)
      else if x ∈ writes then mvAdd (s x) vorder id else s x }

/-! ## the generated table's row type -/

/-- one constructor per `self.action(…)` / `config.action(…)` call site of src/pyramid/config/*.py
(the translator maps (file, directive, n-th call) to these; anything else becomes `unknown`) -/
inductive Kind where
  | addSubscriber | addResponseAdapter | addTraverser | addResourceUrlAdapter | overrideAsset
  | setRootFactory | setSessionFactory | setRequestFactory | setResponseFactory
  | addRequestMethodNone | addRequestMethodProp | addRequestMethod | setExecutionPolicy
  | setLocaleNegotiator | addTranslationDirs | addPredicate | addRenderer | routeConnect | routeIface
  | setSecurityPolicy | setAuthenticationPolicy | setAuthorizationPolicy | ensureAuthentication
  | setDefaultPermission | addPermission | setDefaultCSRFOptions | setCSRFStoragePolicy | addTween
  | addView | addAcceptViewOrder | addViewDeriver | setViewMapper | staticRegister | cacheBuster
  | unknown
deriving DecidableEq, Repr, Inhabited

def Kind.all : List Kind :=
  [.addSubscriber, .addResponseAdapter, .addTraverser, .addResourceUrlAdapter, .overrideAsset,
   .setRootFactory, .setSessionFactory, .setRequestFactory, .setResponseFactory,
   .addRequestMethodNone, .addRequestMethodProp, .addRequestMethod, .setExecutionPolicy,
   .setLocaleNegotiator, .addTranslationDirs, .addPredicate, .addRenderer, .routeConnect, .routeIface,
   .setSecurityPolicy, .setAuthenticationPolicy, .setAuthorizationPolicy, .ensureAuthentication,
   .setDefaultPermission, .addPermission, .setDefaultCSRFOptions, .setCSRFStoragePolicy, .addTween,
   .addView, .addAcceptViewOrder, .addViewDeriver, .setViewMapper, .staticRegister, .cacheBuster]

def Kind.name : Kind → String
  | .addSubscriber => "addSubscriber" | .addResponseAdapter => "addResponseAdapter"
  | .addTraverser => "addTraverser" | .addResourceUrlAdapter => "addResourceUrlAdapter"
  | .overrideAsset => "overrideAsset" | .setRootFactory => "setRootFactory"
  | .setSessionFactory => "setSessionFactory" | .setRequestFactory => "setRequestFactory"
  | .setResponseFactory => "setResponseFactory" | .addRequestMethodNone => "addRequestMethodNone"
  | .addRequestMethodProp => "addRequestMethodProp" | .addRequestMethod => "addRequestMethod"
  | .setExecutionPolicy => "setExecutionPolicy" | .setLocaleNegotiator => "setLocaleNegotiator"
  | .addTranslationDirs => "addTranslationDirs" | .addPredicate => "addPredicate"
  | .addRenderer => "addRenderer" | .routeConnect => "routeConnect" | .routeIface => "routeIface"
  | .setSecurityPolicy => "setSecurityPolicy" | .setAuthenticationPolicy => "setAuthenticationPolicy"
  | .setAuthorizationPolicy => "setAuthorizationPolicy" | .ensureAuthentication => "ensureAuthentication"
  | .setDefaultPermission => "setDefaultPermission" | .addPermission => "addPermission"
  | .setDefaultCSRFOptions => "setDefaultCSRFOptions" | .setCSRFStoragePolicy => "setCSRFStoragePolicy"
  | .addTween => "addTween" | .addView => "addView" | .addAcceptViewOrder => "addAcceptViewOrder"
  | .addViewDeriver => "addViewDeriver" | .setViewMapper => "setViewMapper"
  | .staticRegister => "staticRegister" | .cacheBuster => "cacheBuster" | .unknown => "unknown"

def Kind.ofName (s : String) : Kind := (Kind.all.find? (fun k => k.name == s)).getD .unknown

/-- shape of the discriminator expression at the call site -/
inductive DiscShape where
  /-- `None`: never conflicts -/
  | none
  /-- a constant interface (`IRootFactory`, …): at most one such action in a conflict-free program -/
  | iface
  /-- a tuple display (`('route', name)`, …) -/
  | tuple
  /-- `Deferred(func)`: computed when the action's phase is reached -/
  | deferred
  | unknown
deriving DecidableEq, Repr, Inhabited

/-- one generated row: call site, `order=` (none = not understood), discriminator shape, has a callable -/
structure Row where
  kind : Kind
  phase : Option Int
  disc : DiscShape
  callable : Bool
deriving DecidableEq, Repr, Inhabited

end Pyr.ConfigOrder
