/-
C12 — executable model of the CSRF decision of Pylons/pyramid:

* `pyramid.util.strings_differ`, `bytes_`, `is_same_domain`                       (src/pyramid/util.py)
* the storage policies' `get_csrf_token` / `check_csrf_token`                     (src/pyramid/csrf.py 18-161,
  src/pyramid/session.py 304-314 for the legacy policy)
* `check_csrf_token`, `check_csrf_origin`                                          (src/pyramid/csrf.py 190-368)
* the `csrf_view` deriver                                                          (src/pyramid/viewderivers.py 481-528)
* of WebOb only what the decision reads: `request.headers.get` (`_trans_name`), `request.POST` (which methods /
  content types give form variables; `MultiDict.get` = last value), `request.host`, `domain`, `host_port`,
  `referrer`, `content_type`
* of `urllib.parse.urlparse` only what the decision reads: the scheme, the netloc and whether `ValueError` is
  raised.  Two facts that need Python's `ipaddress` / `unicodedata` are inputs (`Req.brHostOk`, `Req.nfkcOk`).

Python exceptions are modelled: every function that can raise returns `Except Err _`; `BadCSRFToken` and
`BadCSRFOrigin` (both `HTTPBadRequest`) are `Err.badToken` / `Err.badOrigin`, anything else that could escape
(`ValueError` from `urlparse`, `UnicodeEncodeError` from `bytes_`) has its own constructor so that
"a rejection is always a bad request" is a statement about this model and not a convention.

Core Lean only.
-/
namespace Pyr.Csrf

/-- Python `str` without lone surrogates -/
abbrev Text := List Char

inductive Err where
  | badToken        -- pyramid.exceptions.BadCSRFToken  (HTTPBadRequest)
  | badOrigin       -- pyramid.exceptions.BadCSRFOrigin (HTTPBadRequest)
  | valueError      -- ValueError escaping from urllib.parse
  | unicodeError    -- UnicodeEncodeError escaping from bytes_
deriving Repr, DecidableEq

def Err.isBadRequest : Err → Bool
  | .badToken | .badOrigin => true
  | _ => false

/-! ## dictionaries -/

/-- `dict.get(k)` on an association list with unique keys (first match) -/
def lookup (k : Text) : List (Text × Text) → Option Text
  | [] => none
  | (k', v) :: rest => if k' == k then some v else lookup k rest

/-- `MultiDict.get(k)`: webob's `MultiDict.__getitem__` returns the LAST value of the key -/
def lookupLast (k : Text) (l : List (Text × Text)) : Option Text := lookup k l.reverse

/-! ## util.py -/

/-- `bytes_(s, encoding)`: the two codecs that have been used at the comparison site -/
inductive Codec where
  | utf8 | latin1
deriving Repr, DecidableEq

def encode : Codec → Text → Except Err (List UInt8)
  | .utf8, t => .ok (String.ofList t).toByteArray.data.toList
  | .latin1, t =>
    if t.all (fun c => c.toNat < 256) then .ok (t.map fun c => c.toNat.toUInt8) else .error .unicodeError

/-- `strings_differ` (util.py 320-345) with `hmac.compare_digest` = equality of byte strings -/
def stringsDiffer (s1 s2 : List UInt8) : Bool :=
  let lenEq := s1.length == s2.length
  let invalid0 : Nat := if lenEq then 0 else 1
  let left := if lenEq then s1 else s2
  let right := s2
  let invalid := invalid0 + (if left == right then 0 else 1)
  invalid != 0

/-- the codec argument at the three `bytes_(…, 'utf-8')` call sites of the storage policies
(tied to the source by the generated table `Gen.C12`) -/
def tokenCodec : Codec := .utf8

/-- `str.lower()` restricted to ASCII letters (patterns are configuration; the generator uses ASCII
letters and caseless non-ASCII characters only) -/
def lower (t : Text) : Text := t.map Char.toLower
def upper (t : Text) : Text := t.map Char.toUpper

/-- `host.endswith(pattern)` -/
def endsWith (host pat : Text) : Bool := pat.isSuffixOf host

/-- `is_same_domain(host, pattern)` (util.py 621-637) -/
def isSameDomain (host pattern : Text) : Bool :=
  if pattern.isEmpty then false
  else
    let p := lower pattern
    (p.head? == some '.' && (endsWith host p || host == p.tail)) || p == host

/-! ## the request, as far as the decision reads it -/

structure Req where
  /-- `REQUEST_METHOD` -/
  method : Text
  /-- `wsgi.url_scheme` -/
  scheme : Text
  /-- the string-valued CGI keys: `HTTP_*`, `CONTENT_TYPE`, `CONTENT_LENGTH`, `SERVER_NAME`, `SERVER_PORT`
  (a dict: keys unique) -/
  environ : List (Text × Text)
  /-- the fields of the request body as `cgi.FieldStorage` parses it (in order, duplicates allowed) -/
  form : List (Text × Text)
  /-- the fields of the query string — carried so that theorems can say it is never read -/
  query : List (Text × Text)
  /-- the token the storage policy finds for this client (session key `_csrft_` / the csrf cookie) -/
  stored : Option Text
  /-- what `_token_factory()` / `session.new_csrf_token()` returns when a token has to be created -/
  fresh : Text
  /-- `urllib.parse._check_bracketed_host` accepts the bracketed part of the origin's netloc (needs `ipaddress`) -/
  brHostOk : Bool
  /-- `urllib.parse._checknetloc` accepts the origin's netloc (needs `unicodedata` NFKC) -/
  nfkcOk : Bool
deriving Repr

def s (x : String) : Text := x.toList

/-- webob `_trans_name`: header name → environ key -/
def transName (name : Text) : Text :=
  let u := upper name
  if u == s "CONTENT-TYPE" then s "CONTENT_TYPE"
  else if u == s "CONTENT-LENGTH" then s "CONTENT_LENGTH"
  else s "HTTP_" ++ u.map fun c => if c == '-' then '_' else c

/-- `request.headers.get(name)` -/
def header (r : Req) (name : Text) : Option Text := lookup (transName name) r.environ

/-- `x.rsplit(':', 1)` guarded by `':' in x and x[-1] != ']'` (webob `domain`, `host_port`) -/
def rsplitColon (h : Text) : Option (Text × Text) :=
  if h.contains ':' && h.getLast? != some ']' then
    let rev := h.reverse
    let port := (rev.takeWhile (· != ':')).reverse
    let dom := (rev.dropWhile (· != ':')).tail.reverse
    some (dom, port)
  else none

/-- `request.host` -/
def host (r : Req) : Text :=
  match lookup (s "HTTP_HOST") r.environ with
  | some h => h
  | none => (lookup (s "SERVER_NAME") r.environ).getD [] ++ ':' :: (lookup (s "SERVER_PORT") r.environ).getD []

/-- `request.domain` -/
def domain (r : Req) : Text :=
  match rsplitColon (host r) with
  | some (d, _) => d
  | none => host r

/-- `request.host_port` -/
def hostPort (r : Req) : Text :=
  match lookup (s "HTTP_HOST") r.environ with
  | some h =>
    match rsplitColon h with
    | some (_, p) => p
    | none => if r.scheme == s "https" then s "443" else s "80"
  | none => (lookup (s "SERVER_PORT") r.environ).getD []

/-- what `check_csrf_origin` appends to the trusted list: the request's own host -/
def ownHost (r : Req) : Text :=
  if hostPort r != s "80" && hostPort r != s "443" then domain r ++ ':' :: hostPort r else domain r

/-- `request.content_type`: `CONTENT_TYPE` up to the first `;` -/
def contentType (r : Req) : Text :=
  ((lookup (s "CONTENT_TYPE") r.environ).getD []).takeWhile (· != ';')

/-- `request.POST`: form variables only for form submissions (webob `BaseRequest.POST`: the method / content-type
test; `cgi.FieldStorage` underneath reads the body only when `REQUEST_METHOD.upper()` is not GET/HEAD) -/
def postVars (r : Req) : List (Text × Text) :=
  let ct := contentType r
  if (r.method != s "POST" && ct.isEmpty)
      || !(ct.isEmpty || ct == s "application/x-www-form-urlencoded" || ct == s "multipart/form-data") then []
  else if upper r.method == s "GET" || upper r.method == s "HEAD" then []
  else r.form

/-! ## storage policies -/

inductive Storage where
  | legacy   -- LegacySessionCSRFStoragePolicy + pyramid's cookie session (`token is None` ⇒ new)
  | session  -- SessionCSRFStoragePolicy (`not token` ⇒ new)
  | cookie   -- CookieCSRFStoragePolicy  (`not token` ⇒ new)
deriving Repr, DecidableEq

/-- `policy.get_csrf_token(request)` -/
def heldToken (st : Storage) (r : Req) : Text :=
  match r.stored with
  | none => r.fresh
  | some t =>
    match st with
    | .legacy => t
    | _ => if t.isEmpty then r.fresh else t

/-- `policy.check_csrf_token(request, supplied)` with the codec as a parameter -/
def policyCheckWith (c : Codec) (st : Storage) (r : Req) (supplied : Text) : Except Err Bool :=
  match encode c (heldToken st r) with
  | .error e => .error e
  | .ok e =>
    match encode c supplied with
    | .error e' => .error e'
    | .ok g => .ok (!stringsDiffer e g)

def policyCheck := policyCheckWith tokenCodec

/-! ## check_csrf_token (csrf.py 190-245) -/

/-- header first; the POST field only when the header is absent or empty; never the query string -/
def suppliedToken (token hdr : Option Text) (r : Req) : Text :=
  let fromHeader : Text := match hdr with
    | some h => (header r h).getD []
    | none => []
  if fromHeader.isEmpty then
    match token with
    | some t => (lookupLast t (postVars r)).getD []
    | none => []
  else fromHeader

def checkToken (st : Storage) (token hdr : Option Text) (raises : Bool) (r : Req) : Except Err Bool :=
  match policyCheck st r (suppliedToken token hdr r) with
  | .error e => .error e
  | .ok true => .ok true
  | .ok false => if raises then .error .badToken else .ok false

/-! ## urllib.parse.urlparse, as far as the decision reads it -/

def isC0OrSpace (c : Char) : Bool := c.toNat ≤ 0x20

/-- `url.lstrip(_WHATWG_C0_CONTROL_OR_SPACE)` then removal of tab, CR, LF -/
def urlClean (u : Text) : Text :=
  (u.dropWhile isC0OrSpace).filter fun c => c != '\t' && c != '\r' && c != '\n'

def isAsciiAlpha (c : Char) : Bool := ('a' ≤ c && c ≤ 'z') || ('A' ≤ c && c ≤ 'Z')
def isSchemeChar (c : Char) : Bool := isAsciiAlpha c || ('0' ≤ c && c ≤ '9') || c == '+' || c == '-' || c == '.'

/-- the scheme split of `urlsplit`: `(scheme, rest)` -/
def splitScheme (u : Text) : Text × Text :=
  let pre := u.takeWhile (· != ':')
  let post := u.dropWhile (· != ':')
  match post, pre with
  | _ :: rest, c :: _ =>
    if isAsciiAlpha c && pre.all isSchemeChar then (lower pre, rest) else ([], u)
  | _, _ => ([], u)

def isNetlocDelim (c : Char) : Bool := c == '/' || c == '?' || c == '#'

/-- `_splitnetloc(url, 2)[0]` when `url[:2] == '//'`, else `''` -/
def netlocOf (rest : Text) : Text :=
  match rest with
  | '/' :: '/' :: r => r.takeWhile fun c => !isNetlocDelim c
  | _ => []

/-- `netloc.partition('[')[2].partition(']')[0]` -/
def bracketedHost (netloc : Text) : Text :=
  ((netloc.dropWhile (· != '[')).drop 1).takeWhile (· != ']')

structure Parsed where
  scheme : Text
  netloc : Text
deriving Repr, DecidableEq

/-- `urlparse(origin)`: scheme and netloc, or `ValueError` -/
def urlparse (origin : Text) (brHostOk nfkcOk : Bool) : Except Err Parsed :=
  let u := urlClean origin
  let sp := splitScheme u
  let scheme := sp.1
  let netloc := netlocOf sp.2
  let lb := netloc.contains '['
  let rb := netloc.contains ']'
  if (lb && !rb) || (rb && !lb) then .error .valueError
  else if lb && rb && !brHostOk then .error .valueError
  else if !netloc.isEmpty && !(netloc.all fun c => c.toNat < 128) && !nfkcOk then .error .valueError
  else .ok ⟨scheme, netloc⟩

/-! ## check_csrf_origin (csrf.py 248-368) -/

/-- `origin.split(' ')[-1]` -/
def lastOrigin (o : Text) : Text := (o.reverse.takeWhile (· != ' ')).reverse

/-- `(origin, origin_is_referrer)` after "Determine the origin of this request" -/
def pickOrigin (r : Req) : Option Text × Bool :=
  match header r (s "Origin") with
  | none => (lookup (s "HTTP_REFERER") r.environ, true)
  | some o => (some (lastOrigin o), false)

/-- `_fail(reason)` -/
def failOrigin (raises : Bool) : Except Err Bool := if raises then .error .badOrigin else .ok false

/-- whether the ValueError of `urlparse` is caught (the `try … except ValueError` of csrf.py 355-358;
tied to the source by the generated table) -/
def catchesValueError : Bool := true

/-- The body of `check_csrf_origin`.  `trusted` is the list object as the function finds it (argument, or
`aslist(settings[...])` when the argument is `None`); the result carries the list object as the function
LEAVES the caller's argument (`copies = true`: `list(trusted_origins)` is made first, csrf.py 337-339). -/
def checkOriginCore (copies catches : Bool) (trusted : List Text) (allowNoOrigin raises : Bool) (r : Req) :
    Except Err Bool × List Text :=
  if r.scheme != s "https" then (.ok true, trusted)
  else
    match pickOrigin r with
    | (none, _) => (if allowNoOrigin then .ok true else failOrigin raises, trusted)
    | (some origin, isReferrer) =>
      if origin.isEmpty then (if allowNoOrigin then .ok true else failOrigin raises, trusted)
      else
        let working := trusted ++ [ownHost r]
        let left := if copies then trusted else working
        if !isReferrer && origin == s "null" then
          (if working.contains origin then .ok true else failOrigin raises, left)
        else
          match urlparse origin r.brHostOk r.nfkcOk with
          | .error e => (if catches then failOrigin raises else .error e, left)
          | .ok p =>
            if p.scheme != s "https" then (failOrigin raises, left)
            else if !(working.any fun h => isSameDomain p.netloc h) then (failOrigin raises, left)
            else (.ok true, left)

/-- `check_csrf_origin(request, trusted_origins=trusted, allow_no_origin=…, raises=…)` as the code is now -/
def checkOriginSt (trusted : List Text) (allowNoOrigin raises : Bool) (r : Req) : Except Err Bool × List Text :=
  checkOriginCore true catchesValueError trusted allowNoOrigin raises r

def checkOrigin (trusted : List Text) (allowNoOrigin raises : Bool) (r : Req) : Except Err Bool :=
  (checkOriginSt trusted allowNoOrigin raises r).1

/-- a sequence of checks sharing ONE trusted-origins list object: the list each call finds is the list the
previous call left -/
def checkOriginSeq (allowNoOrigin raises : Bool) : List Text → List Req → List (Except Err Bool) × List Text
  | tl, [] => ([], tl)
  | tl, r :: rest =>
    let (v, tl') := checkOriginSt tl allowNoOrigin raises r
    let (vs, tl'') := checkOriginSeq allowNoOrigin raises tl' rest
    (v :: vs, tl'')

/-! ## the csrf_view deriver (viewderivers.py 481-528) -/

/-- the `IDefaultCSRFOptions` utility (config/security.py 371-391) -/
structure Defaults where
  requireCsrf : Bool
  token : Option Text
  header : Option Text
  safeMethods : List Text
  checkOrigin : Bool
  allowNoOrigin : Bool
  callback : Option (Req → Bool)

/-- what `csrf_view` uses when no `IDefaultCSRFOptions` utility is registered (viewderivers.py 484-491) -/
def builtinDefaults : Defaults where
  requireCsrf := false
  token := some (s "csrf_token")
  header := some (s "X-CSRF-Token")
  safeMethods := [s "GET", s "HEAD", s "OPTIONS", s "TRACE"]
  checkOrigin := true
  allowNoOrigin := false
  callback := none

structure ViewCfg where
  /-- `require_csrf` of the view: `some true`, `some false`, `none` -/
  explicit : Option Bool
  /-- `info.exception_only` -/
  exceptionOnly : Bool
  /-- the registered defaults, `none` when `set_default_csrf_options` was never called -/
  defaults : Option Defaults
  storage : Storage
  /-- `aslist(settings['pyramid.csrf_trusted_origins'])` -/
  trustedSetting : List Text

def ViewCfg.opts (c : ViewCfg) : Defaults := c.defaults.getD builtinDefaults

/-- truthiness of `token` / `header` -/
def truthy : Option Text → Bool
  | some (_ :: _) => true
  | _ => false

/-- `enabled` as computed when the view is derived -/
def csrfEnabled (c : ViewCfg) : Bool :=
  let d := c.opts
  let enabled := c.explicit == some true
    || (c.explicit != some false && d.requireCsrf && !c.exceptionOnly)
  enabled && (truthy d.token || truthy d.header)

/-- does the wrapper check this request at all -/
def checksApply (c : ViewCfg) (r : Req) : Bool :=
  let d := c.opts
  csrfEnabled c && !d.safeMethods.contains r.method &&
    (match d.callback with
     | none => true
     | some cb => cb r)

/-- the order of the two checks in the wrapper (tied to the source by the generated table) -/
def originBeforeToken : Bool := true

/-- the wrapped view: `.ok ()` = the original view body ran -/
def csrfView (c : ViewCfg) (r : Req) : Except Err Unit :=
  let d := c.opts
  if checksApply c r then
    let first : Except Err Bool :=
      if d.checkOrigin then checkOrigin c.trustedSetting d.allowNoOrigin true r else .ok true
    match first with
    | .error e => .error e
    | .ok _ =>
      match checkToken c.storage d.token d.header true r with
      | .error e => .error e
      | .ok _ => .ok ()
  else .ok ()

end Pyr.Csrf
