"""Assemble MANIFEST.json (checks, not_applicable, engines) from manifest/*.json and known_findings.json from
known/*.json + known/fixed.json.  Run by the orchestrator before committing:  python3 lib/merge.py"""
import json, os, glob
V = os.path.dirname(os.path.dirname(os.path.abspath(__file__)))
props = [json.loads(l)['id'] for l in open(os.path.join(V, 'properties.jsonl'))]
m = json.load(open(os.path.join(V, 'MANIFEST.json')))
checks = {}
hold = set()
hp = os.path.join(V, 'manifest', 'HOLD')
if os.path.exists(hp):
    hold = {l.split()[0] for l in open(hp) if l.strip() and not l.startswith('#')}
for f in sorted(glob.glob(os.path.join(V, 'manifest', 'C*.json'))):
    c = json.load(open(f))
    if c['property_id'] in hold:
        continue
    checks[c['property_id']] = c
m['checks'] = [checks[p] for p in props if p in checks]
reasons = {x['property_id']: x['reason'] for x in m.get('not_applicable', [])}
m['not_applicable'] = [{'property_id': p, 'reason': ('check built, being brought up to date with a fix: commit in /repo before it is claimed (see notes/%s.md)' % p) if p in hold else reasons.get(p, 'check not built yet (see DESIGN.md §6.4 build order)')} for p in props if p not in checks]
for e in m.get('engines', []):
    e['serves_properties'] = [p for p in props if p in checks]
json.dump(m, open(os.path.join(V, 'MANIFEST.json'), 'w'), indent=1)
findings = []
for f in sorted(glob.glob(os.path.join(V, 'known', '*.json'))):
    if os.path.basename(f)[:-5] in hold:
        continue
    findings += json.load(open(f))
# dedupe by id (a finding may be listed in known/fixed.json and again in its property's fragment): the later wins
_seen = {}
for x in findings:
    _seen[x['id']] = x
findings = list(_seen.values())
json.dump({'comment': 'committed list of defects of the unchanged tree that are recorded rather than repaired (status known) and of repaired ones (status fixed; suppress nothing). Never written at run time.',
           'findings': findings}, open(os.path.join(V, 'known_findings.json'), 'w'), indent=1)
print('checks:', [c['property_id'] for c in m['checks']], 'findings:', [(x['id'], x['status']) for x in findings])
