"""Assemble MANIFEST.json (checks, not_applicable, engines) from manifest/*.json and known_findings.json from
known/*.json + known/fixed.json.  Run by the orchestrator before committing:  python3 lib/merge.py"""
import json, os, glob
V = os.path.dirname(os.path.dirname(os.path.abspath(__file__)))
props = [json.loads(l)['id'] for l in open(os.path.join(V, 'properties.jsonl'))]
m = json.load(open(os.path.join(V, 'MANIFEST.json')))
checks = {}
hold = set()
hp = os.path.join(V, 'manifest', 'HOLD')
if os.path.exists(hp):
    hold = {l.split()[0] for l in open(hp) if l.strip() and not l.startswith('#')}
for f in sorted(glob.glob(os.path.join(V, 'manifest', 'C*.json'))):
    c = json.load(open(f))
    if c['property_id'] in hold:
        continue
    checks[c['property_id']] = c
m['checks'] = [checks[p] for p in props if p in checks]
reasons = {x['property_id']: x['reason'] for x in m.get('not_applicable', [])}
m['not_applicable'] = [{'property_id': p, 'reason': ('check built, being brought up to date with a fix: commit in /repo before it is claimed (see notes/%s.md)' % p) if p in hold else reasons.get(p, 'check not built yet (see DESIGN.md §6.4 build order)')} for p in props if p not in checks]
for e in m.get('engines', []):
    e['serves_properties'] = [p for p in props if p in checks]
# notes: regenerated so that the list of fix: commits in /repo is always the current one
import subprocess
try:
    log = subprocess.run(['git', '-C', '/repo', 'log', '--format=%h %s'], capture_output=True, text=True).stdout.splitlines()
    fixes = [l for l in log if l.split(' ', 1)[1].startswith('fix:')]
except Exception:
    fixes = []
extras = sorted(os.path.basename(f)[:-5] for f in glob.glob(os.path.join(V, 'manifest', 'X*.json')))
m['notes'] = (
    "All 20 properties are decided by Lean 4 theorems about executable models (lean/PyramidModel) tied to /repo on every run by "
    "translators that regenerate Lean tables from the tree under test (extract/*.py -> lean/PyramidModel/Gen; mostly by probing the "
    "running code in a child interpreter, AST only for structural facts) and by differential correspondence harnesses (harness/*.py) "
    "through compiled model drivers; see DESIGN.md (section 8 = as-built status, decisions, seeded changes and behaviour-preserving "
    "refactorings used to test the checks). No source hooks are used (hooks.source_commits is empty); /repo carries %d unguarded "
    "'fix:' commits repairing genuine defects found by this work (each recorded as status=fixed in known_findings.json; the unedited "
    "suite of 2637 tests passes with each): %s. Defects recorded rather than repaired are listed with status=known in "
    "known_findings.json (assembled from known/*.json by lib/merge.py, never written at run time). Additional coverage targets %s "
    "(./check X0n --tier quick|thorough; statements, models, theorems, translators and harnesses of their own, see notes/X0n.md: "
    "X01 Router.handle_request integration model composing C01/C02/C03/C05/C14 with a refinement theorem, X02 settings, X03 renderers, "
    "X04 asset overrides, X05 authentication policies, X06 predicates, X07 WSGI sub-application mounting, X08 route prefixes, X09 dotted-name resolution) are not "
    "among the listed properties and therefore not in `checks`."
) % (len(fixes), '; '.join(fixes), ', '.join(extras))
json.dump(m, open(os.path.join(V, 'MANIFEST.json'), 'w'), indent=1)
findings = []
for f in sorted(glob.glob(os.path.join(V, 'known', '*.json'))):
    if os.path.basename(f)[:-5] in hold:
        continue
    findings += json.load(open(f))
# dedupe by id (a finding may be listed in known/fixed.json and again in its property's fragment): the later wins
_seen = {}
for x in findings:
    _seen[x['id']] = x
findings = list(_seen.values())
json.dump({'comment': 'committed list of defects of the unchanged tree that are recorded rather than repaired (status known) and of repaired ones (status fixed; suppress nothing). Never written at run time.',
           'findings': findings}, open(os.path.join(V, 'known_findings.json'), 'w'), indent=1)
print('checks:', [c['property_id'] for c in m['checks']], 'findings:', [(x['id'], x['status']) for x in findings])
