#!/bin/bash
# usage: lib/seedkeep.sh <PROP> <n>     — confirm the seeded change in /tmp/seed_<PROP>_<n>/_seed (suite passes with it,
# demo fails with it and passes without it), run our check(s) against it, store it as /verif/seeded/<PROP>-<n>/ and
# remove the scratch worktree.
PROP=$1; N=$2; S=/tmp/seed_${PROP}_${N}; D=/verif/seeded/${PROP}-${N}
[ -f $S/_seed/patch.diff ] || { echo "no patch in $S/_seed"; exit 2; }
mkdir -p $D; cp $S/_seed/patch.diff $S/_seed/demo.py $D/; cp $S/_seed/meta.json $D/meta.agent.json 2>/dev/null
W=/tmp/wkeep_$$; git -C /repo worktree add --detach $W HEAD -q
cd $W
PYTHONPATH=$W/src /venv/bin/python -W ignore $D/demo.py >/tmp/keep_demo0.txt 2>&1; d0=$?
git apply $D/patch.diff || { echo "patch does not apply"; git -C /repo worktree remove --force $W; exit 2; }
PYTHONPATH=$W/src /venv/bin/python -W ignore $D/demo.py >/tmp/keep_demo1.txt 2>&1; d1=$?
suite=$(PYTHONPATH=$W/src /venv/bin/python -m pytest -q -p no:cacheprovider -x 2>&1 | tail -1)
cd /verif; git -C /repo worktree remove --force $W
q=$(TAILN=3 lib/seedtest.sh $PROP $D/patch.diff quick 2>&1)
qrc=$(echo "$q" | grep -o 'exit=[0-9]*' | tail -1)
kind=$(echo "$q" | grep VIOLATION | head -1)
python3 - "$PROP" "$N" "$d0" "$d1" "$suite" "$qrc" "$kind" "$D" <<'PY'
import sys, json, os
prop,n,d0,d1,suite,qrc,kind,D = sys.argv[1:9]
agent = {}
try: agent = json.load(open(os.path.join(D,'meta.agent.json')))
except Exception: pass
meta = {'property': prop, 'variant': int(n), 'summary': agent.get('summary'), 'needs_to_manifest': agent.get('needs_to_manifest'),
        'files_changed': agent.get('files_changed'),
        'confirmed_by_orchestrator': {'demo_on_unchanged_tree_exit': int(d0), 'demo_on_changed_tree_exit': int(d1),
                                      'suite_on_changed_tree': suite, 'commands': ['PYTHONPATH=<wt>/src /venv/bin/python demo.py (before/after git apply patch.diff)',
                                      'PYTHONPATH=<wt>/src /venv/bin/python -m pytest -q -p no:cacheprovider -x', 'lib/seedtest.sh %s patch.diff quick' % prop]},
        'our_check': {'quick': qrc, 'line': kind}}
json.dump(meta, open(os.path.join(D,'meta.json'),'w'), indent=1)
print(json.dumps(meta['confirmed_by_orchestrator']), qrc, kind)
PY
rm -f $D/meta.agent.json
git -C /repo worktree remove --force $S 2>/dev/null; rm -rf $S
