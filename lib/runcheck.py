"""Entry point of every check:  ./check Cxx --tier quick|thorough [--replay FILE]

Pipeline (DESIGN.md §6):
  1. regenerate lean/PyramidModel/Gen/Cxx*.lean from /repo's working tree (extract/cxx.py, if any)
  2. lake build  PyramidModel.Props.Cxx  and the driver  drv_cxx   (under a file lock)
  3. audit: forbidden-token grep + `#print axioms` of every theorem in Props/Cxx.lean
  4. corpus + seeded correspondence (impl vs model) + property evaluation (impl vs spec)  (harness/cxx.py)
  5. on any break: failing-input search on the implementation, then VIOLATION (with or without input)
  6. evidence/Cxx.json, exit code (0 ok, 1 violation, 2 infrastructure failure / timeout)
"""
import argparse, fcntl, hashlib, importlib.util, json, os, random, re, subprocess, sys, time, traceback

VERIF = os.path.dirname(os.path.dirname(os.path.abspath(__file__)))
LEAN = os.path.join(VERIF, 'lean')
REPO = os.environ.get('VERIF_REPO', '/repo')
SRC = os.path.join(REPO, 'src')
ALLOWED_AXIOMS = {'propext', 'Classical.choice', 'Quot.sound'}
FORBIDDEN = re.compile(r'\bsorry\b|\badmit\b|^\s*axiom\s|native_decide|bv_decide|implemented_by|\bunsafe\s|maxHeartbeats\s+0\b', re.M)

sys.path.insert(0, os.path.join(VERIF, 'lib'))
sys.path.insert(0, VERIF)
if SRC not in sys.path:
    sys.path.insert(0, SRC)


def strip_lean_comments(text):
    """remove /- … -/ (nested) and -- … comments so that the audit grep ignores prose"""
    out, i, depth, n = [], 0, 0, len(text)
    while i < n:
        if text.startswith('/-', i):
            depth += 1; i += 2; continue
        if depth and text.startswith('-/', i):
            depth -= 1; i += 2; continue
        if depth:
            if text[i] == '\n':
                out.append('\n')
            i += 1; continue
        if text.startswith('--', i):
            j = text.find('\n', i)
            i = n if j < 0 else j
            continue
        out.append(text[i]); i += 1
    return ''.join(out)


class Ctx:
    """what a harness gets"""

    def __init__(self, prop, tier, seed, deadline):
        self.prop, self.tier, self.seed, self.deadline = prop, tier, seed, deadline
        self.rng = random.Random((seed << 8) ^ int(prop[1:]))
        self.repo, self.src, self.verif = REPO, SRC, VERIF
        self.driver_path = None          # set when the driver built
        self.build_ok = False
        self.notes = []

    def n(self, quick, thorough):
        return quick if self.tier == 'quick' else thorough

    def time_left(self):
        return self.deadline - time.time()

    # ---- model access -------------------------------------------------------------------
    def run_model(self, cases, exe=None):
        """batch: list of JSON-able cases -> list of JSON replies (same order)"""
        exe = exe or self.driver_path
        if exe is None:
            raise RuntimeError('model driver not available')
        data = '\n'.join(json.dumps(c, separators=(',', ':')) for c in cases) + '\n'
        p = subprocess.run([exe], input=data.encode(), stdout=subprocess.PIPE, stderr=subprocess.PIPE,
                           timeout=max(30, self.time_left()))
        if p.returncode != 0:
            raise RuntimeError('driver exited %s: %s' % (p.returncode, p.stderr.decode()[-500:]))
        lines = p.stdout.decode().split('\n')      # not splitlines(): U+0085/U+2028 inside JSON text are not line ends
        if lines and lines[-1] == '':
            lines.pop()
        if len(lines) != len(cases):
            raise RuntimeError('driver answered %d lines for %d cases' % (len(lines), len(cases)))
        return [json.loads(l) for l in lines]

    def open_model(self, exe=None):
        return ModelProc(exe or self.driver_path)

    def corpus(self):
        d = os.path.join(VERIF, 'corpus', self.prop)
        out = []
        if os.path.isdir(d):
            for f in sorted(os.listdir(d)):
                if f.endswith('.json'):
                    out.append((f, json.load(open(os.path.join(d, f)))))
        return out


class ModelProc:
    """interactive line protocol (operation sequences, HASH request/reply)"""

    def __init__(self, exe):
        if exe is None:
            raise RuntimeError('model driver not available')
        self.p = subprocess.Popen([exe], stdin=subprocess.PIPE, stdout=subprocess.PIPE, bufsize=0)

    def send(self, obj):
        self.p.stdin.write((json.dumps(obj, separators=(',', ':')) + '\n').encode())
        self.p.stdin.flush()

    def recv(self):
        line = self.p.stdout.readline()
        if not line:
            raise RuntimeError('driver closed the stream')
        return json.loads(line)

    def ask(self, obj):
        self.send(obj)
        return self.recv()

    def close(self):
        try:
            self.p.stdin.close()
            self.p.wait(timeout=10)
        except Exception:
            self.p.kill()

    def __enter__(self):
        return self

    def __exit__(self, *a):
        self.close()


def load_module(path, name):
    spec = importlib.util.spec_from_file_location(name, path)
    m = importlib.util.module_from_spec(spec)
    sys.modules[name] = m
    spec.loader.exec_module(m)
    return m


def write_if_changed(path, content):
    os.makedirs(os.path.dirname(path), exist_ok=True)
    try:
        if open(path).read() == content:
            return False
    except FileNotFoundError:
        pass
    with open(path, 'w') as f:
        f.write(content)
    return True


def theorem_names(props_file):
    """(namespace-qualified) names of the theorems stated in Props/Cxx.lean"""
    text = strip_lean_comments(open(props_file).read())
    names, ns = [], []
    for line in text.splitlines():
        m = re.match(r'\s*namespace\s+(\S+)', line)
        if m:
            ns.append(m.group(1)); continue
        m = re.match(r'\s*end\s+(\S+)', line)
        if m and ns and ns[-1] == m.group(1):
            ns.pop(); continue
        m = re.match(r'\s*(?:@\[[^\]]*\]\s*)?(?:private\s+|protected\s+)?theorem\s+([^\s:({\[]+)', line)
        if m:
            names.append('.'.join(ns + [m.group(1)]))
    return names


def lake(args, timeout):
    lock = open(os.path.join(LEAN, '.build.lock'), 'w')
    fcntl.flock(lock, fcntl.LOCK_EX)
    try:
        p = subprocess.run(['lake'] + args, cwd=LEAN, stdout=subprocess.PIPE, stderr=subprocess.STDOUT, timeout=timeout)
        return p.returncode, p.stdout.decode(errors='replace')
    finally:
        fcntl.flock(lock, fcntl.LOCK_UN)
        lock.close()


def build_and_audit(prop, ctx, report):
    """steps 1-3; fills report['build'] and returns the list of broken obligations (strings)"""
    broken = []
    low = prop.lower()
    b = report['build'] = {}
    # 1. regenerate
    ext = os.path.join(VERIF, 'extract', low + '.py')
    if os.path.exists(ext):
        try:
            m = load_module(ext, 'extract_' + low)
            files = m.generate(SRC)
            changed = [rel for rel, content in files.items() if write_if_changed(os.path.join(LEAN, rel), content)]
            b['generated'] = sorted(files); b['generated_changed'] = changed
            if hasattr(m, 'summary'):
                b['generated_summary'] = m.summary
        except Exception as e:
            b['generate_error'] = ''.join(traceback.format_exception_only(type(e), e)).strip()
            broken.append('translator extract/%s.py failed on the current source: %s' % (low, b['generate_error']))
    # 2. build: driver first (model only), then the property theorems
    drv = 'drv_' + low
    rc, out = lake(['build', drv], 1500)
    b['driver_rc'] = rc
    if rc == 0:
        ctx.driver_path = os.path.join(LEAN, '.lake', 'build', 'bin', drv)
    else:
        b['driver_log'] = out[-3000:]
        broken.append('model driver %s does not build' % drv)
    props_mod = 'PyramidModel.Props.' + prop
    props_file = os.path.join(LEAN, 'PyramidModel', 'Props', prop + '.lean')
    names = theorem_names(props_file)
    b['theorems'] = names
    rc, out = lake(['build', props_mod], 2400)
    b['props_rc'] = rc
    if rc != 0:
        b['props_log'] = out[-4000:]
        errs = re.findall(r'error: (\S+?):(\d+):\d+: (.*)', out)
        b['props_errors'] = ['%s:%s %s' % e for e in errs[:10]]
        failing = sorted({e[0] for e in errs}) or [props_mod]
        broken.append('lake build %s failed (%s)' % (props_mod, '; '.join(b['props_errors'][:3]) or 'see log'))
        discharged = []
    else:
        # 3. audit
        audit = os.path.join(LEAN, 'Audit', prop + '.lean')
        write_if_changed(audit, 'import %s\n' % props_mod + ''.join('#print axioms %s\n' % n for n in names))
        lock = open(os.path.join(LEAN, '.build.lock'), 'w')
        fcntl.flock(lock, fcntl.LOCK_SH)
        try:
            p = subprocess.run(['lake', 'env', 'lean', audit], cwd=LEAN, stdout=subprocess.PIPE, stderr=subprocess.STDOUT, timeout=900)
        finally:
            fcntl.flock(lock, fcntl.LOCK_UN); lock.close()
        aout = p.stdout.decode(errors='replace')
        axioms = {}
        for m in re.finditer(r"'([^']+)' depends on axioms: \[([^\]]*)\]|'([^']+)' does not depend on any axioms", aout):
            if m.group(1):
                axioms[m.group(1)] = [a.strip() for a in m.group(2).replace('\n', ' ').split(',') if a.strip()]
            else:
                axioms[m.group(3)] = []
        discharged = []
        for n in names:
            if n not in axioms:
                broken.append('audit: no axiom report for theorem %s' % n)
            elif set(axioms[n]) - ALLOWED_AXIOMS:
                broken.append('audit: theorem %s depends on %s' % (n, sorted(set(axioms[n]) - ALLOWED_AXIOMS)))
            else:
                discharged.append(n)
        b['axioms_used'] = sorted({a for v in axioms.values() for a in v})
        if p.returncode != 0:
            b['audit_log'] = aout[-2000:]
            broken.append('audit file does not check')
    # thorough tier: re-check the compiled property module (and everything it imports from this library) with
    # the toolchain's independent checker
    if ctx.tier == 'thorough' and b.get('props_rc') == 0:
        try:
            p = subprocess.run(['lake', 'env', 'leanchecker', props_mod], cwd=LEAN, stdout=subprocess.PIPE, stderr=subprocess.STDOUT, timeout=1200)
            b['leanchecker_rc'] = p.returncode
            if p.returncode != 0:
                b['leanchecker_log'] = p.stdout.decode(errors='replace')[-1500:]
                broken.append('leanchecker rejects %s' % props_mod)
        except subprocess.TimeoutExpired:
            b['leanchecker_rc'] = 'timeout'
    # forbidden tokens anywhere in the library (comments stripped)
    hits = []
    for root, _, files in os.walk(os.path.join(LEAN, 'PyramidModel')):
        for f in files:
            if f.endswith('.lean'):
                t = strip_lean_comments(open(os.path.join(root, f)).read())
                for m in FORBIDDEN.finditer(t):
                    hits.append('%s: %s' % (os.path.relpath(os.path.join(root, f), LEAN), m.group(0).strip()))
    b['forbidden_tokens'] = hits
    if hits:
        broken.append('audit: forbidden token(s): ' + '; '.join(hits[:5]))
    b['obligations'] = len(names)
    b['discharged'] = len(discharged)
    ctx.build_ok = not broken
    return broken


def load_known():
    p = os.path.join(VERIF, 'known_findings.json')
    if not os.path.exists(p):
        return {}
    return {e['id']: e for e in json.load(open(p))['findings']}


def main():
    ap = argparse.ArgumentParser()
    ap.add_argument('prop')
    ap.add_argument('--tier', default=os.environ.get('VERIF_TIER', 'quick'), choices=['quick', 'thorough'])
    ap.add_argument('--replay')
    a = ap.parse_args()
    prop = a.prop.upper()
    seed = int(os.environ.get('VERIF_SEED', '0') or 0)
    t0 = time.time()
    budget = 600 if a.tier == 'quick' else 3000
    ctx = Ctx(prop, a.tier, seed, t0 + budget)
    # hard watchdog: a hung harness (deadlock in the code under test, runaway search) must end as an
    # infrastructure failure (exit 2, no VIOLATION line), never as a check that does not return
    import threading

    def _watchdog():
        sys.stderr.write('TIMEOUT: %s %s exceeded its hard limit of %ds\n' % (prop, a.tier, hard))
        sys.stderr.flush()
        os._exit(2)
    hard = int(os.environ.get('VERIF_HARD_LIMIT', budget * 1.5 + 120))
    _wd = threading.Timer(hard, _watchdog)
    _wd.daemon = True
    _wd.start()
    os.makedirs(os.path.join(VERIF, 'evidence'), exist_ok=True)
    os.makedirs(os.path.join(VERIF, 'replays'), exist_ok=True)
    report = {}
    try:
        broken = build_and_audit(prop, ctx, report)
        harness = load_module(os.path.join(VERIF, 'harness', prop.lower() + '.py'), 'harness_' + prop.lower())
        if a.replay:
            case = json.load(open(a.replay))
            res = harness.replay(ctx, case)
            print(json.dumps(res, indent=1, default=str))
            return 1 if res.get('violates') else 0
        known0 = load_known()

        def is_known(v):
            fid = v.get('finding')
            return bool(fid and fid in known0 and known0[fid].get('status') == 'known' and known0[fid].get('property') == prop)
        crashed = None
        try:
            res = harness.run(ctx)
        except subprocess.TimeoutExpired:
            raise
        except Exception:
            # the harness could not cope with the tree under test (e.g. a restructured function its model
            # comparison relies on).  That is not a verdict; fall back to the implementation-only failing-input
            # search, which needs neither the model nor the generated tables.  Only a concrete failing input found
            # there is reported; otherwise this stays an infrastructure failure (exit 2).
            crashed = traceback.format_exc()
            if not hasattr(harness, 'search'):
                raise
            sys.stderr.write('harness.run crashed; falling back to the implementation-only search\n' + crashed)
            res = {'evaluations': 0, 'distinct_nontrivial': 0, 'rule': 'harness.run crashed; search() only', 'samples': [],
                   'mismatches': [], 'violations': [], 'notes': ['harness.run crashed: ' + crashed[-600:]]}
        mism = res.get('mismatches', [])
        viol = res.get('violations', [])
        if (broken or mism or crashed) and not [v for v in viol if not is_known(v)] and hasattr(harness, 'search'):
            sres = harness.search(ctx)
            viol = viol + sres.get('violations', [])
            res['search'] = {k: v for k, v in sres.items() if k != 'violations'}
        if crashed and not [v for v in viol if not is_known(v)]:
            print('harness.run crashed and the fallback search found no failing input'); return 2
    except subprocess.TimeoutExpired as e:
        print('TIMEOUT %s' % e); return 2
    except Exception:
        traceback.print_exc()
        return 2

    known = load_known()
    lines, unknown, seen_known = [], [], {}
    for v in viol:
        fid = v.get('finding')
        if fid and fid in known and known[fid].get('status') == 'known' and known[fid].get('property') == prop:
            seen_known.setdefault(fid, v)
        else:
            unknown.append(v)
    for fid, v in sorted(seen_known.items()):
        lines.append('KNOWN-FINDING: property=%s %s [%s] e.g. %s' % (prop, known[fid]['what'], fid, json.dumps(v.get('case'), default=str)[:200]))
    exit_code = 0
    replay_paths = []

    def write_replay(obj):
        h = hashlib.sha1(json.dumps(obj, sort_keys=True, default=str).encode()).hexdigest()[:12]
        path = os.path.join('replays', '%s-%s.json' % (prop, h))
        obj['replay_cmd'] = './check %s --replay %s' % (prop, path)
        with open(os.path.join(VERIF, path), 'w') as f:
            json.dump(obj, f, indent=1, default=str)
        return path

    if unknown:
        exit_code = 1
        unknown.sort(key=lambda v: len(json.dumps(v.get('case'), default=str)))
        for v in unknown[:1]:
            path = write_replay({'property': prop, 'kind': 'failing-input', 'case': v.get('case'), 'impl': v.get('impl'),
                                 'expected': v.get('expected'), 'detail': v.get('detail'), 'stream': v.get('stream'), 'seed': seed, 'tier': a.tier,
                                 'other_failing_cases': [w.get('case') for w in unknown[1:6]], 'failing_cases_total': len(unknown)})
            replay_paths.append(path)
            lines.append('VIOLATION property=%s replay=%s' % (prop, path))
    elif broken or mism:
        exit_code = 1
        path = write_replay({'property': prop, 'kind': 'no-failing-input-found',
                             'broken_obligations': broken,
                             'correspondence_mismatches': mism[:5],
                             'build': {k: report['build'].get(k) for k in ('props_errors', 'generate_error', 'forbidden_tokens', 'generated_changed')},
                             'search': res.get('search'), 'seed': seed, 'tier': a.tier})
        replay_paths.append(path)
        lines.append('VIOLATION property=%s replay=%s no-failing-input-found' % (prop, path))

    b = report['build']
    cov = {
        'obligations': max(b.get('obligations', 0), 1),
        'discharged': b.get('discharged', 0),
        'checker_cmd': 'cd lean && lake build PyramidModel.Props.%s && lake env lean Audit/%s.lean   (Lean 4 kernel; #print axioms per theorem)' % (prop, prop),
        'trusted_base': [
            'Lean 4.33.0 kernel; axioms used: %s' % (', '.join(b.get('axioms_used', [])) or 'none'),
            'hand-written model lean/PyramidModel (tied to /repo by the correspondence run below)',
            'correspondence harness harness/%s.py and its generator' % prop.lower(),
        ] + res.get('trusted_base', []),
        'theorems': b.get('theorems', []),
        'evaluations': int(res.get('evaluations', 0)),
        'distinct_nontrivial': int(res.get('distinct_nontrivial', 0)),
        'rule': res.get('rule', ''),
        'samples': res.get('samples', [])[:8],
        'traces_validated_against_impl': int(res.get('agreeing', 0)),
        'disagreements_checked': len(mism),
        'distribution': res.get('distribution', {}),
        'exhaustive': bool(res.get('exhaustive', False)),
        'build': {k: v for k, v in b.items() if k not in ('driver_log', 'props_log', 'audit_log')},
        'broken_obligations': broken,
        'known_findings_hit': sorted(seen_known),
        'notes': ctx.notes + res.get('notes', []),
    }
    if 'search' in res:
        cov['search'] = res['search']
    ev = {'property_id': prop, 'tier': a.tier, 'seed': seed, 'level': 'proof', 'coverage': cov,
          'assumptions': res.get('assumptions', []), 'wall_s': round(time.time() - t0, 2),
          'violations': len(unknown) + (1 if (broken or mism) and not unknown else 0)}
    with open(os.path.join(VERIF, 'evidence', prop + '.json'), 'w') as f:
        json.dump(ev, f, indent=1, default=str)
    for l in lines:
        print(l)
    print('%s tier=%s seed=%d theorems=%d/%d cases=%d nontrivial=%d agree=%d mismatches=%d violations=%d known=%d wall=%.1fs -> exit %d' % (
        prop, a.tier, seed, cov['discharged'], b.get('obligations', 0), cov['evaluations'], cov['distinct_nontrivial'],
        cov['traces_validated_against_impl'], len(mism), len(unknown), len(seen_known), time.time() - t0, exit_code))
    return exit_code


if __name__ == '__main__':
    sys.exit(main())
