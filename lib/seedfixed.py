#!/usr/bin/env python3
"""usage: lib/seedfixed.py <PROP-N> <first-run result> <what was strengthened> -- record that a stored seeded change,
missed at first, is now reported with a failing input (after the orchestrator re-ran lib/seedtest.sh and saw exit 1)."""
import json, sys
pid, first, note = sys.argv[1:4]
p = f'/verif/seeded/{pid}/meta.json'; d = json.load(open(p)); prop = pid.split('-')[0]
d['our_check'] = {'quick': 'exit=1', 'line': f'VIOLATION property={prop} replay=replays/{prop}-<hash>.json',
                  'history': f'first run: {first}. {note}'}
json.dump(d, open(p, 'w'), indent=1)
