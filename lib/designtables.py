#!/usr/bin/env python3
"""Regenerate the generated tables of DESIGN.md in place: §8.1 (lib/statustable.py) and §8.3 (lib/seedtable.py).
A table is the run of consecutive lines starting with '|' that begins at the given header line."""
import subprocess, os, sys
V = os.path.dirname(os.path.dirname(os.path.abspath(__file__)))
p = os.path.join(V, 'DESIGN.md')
lines = open(p).read().split('\n')
def splice(header_prefix, script):
    new = subprocess.run([sys.executable, os.path.join(V, 'lib', script)], capture_output=True, text=True).stdout.strip('\n').split('\n')
    new = [l for l in new if l.startswith('|')]
    i = next(k for k, l in enumerate(lines) if l.startswith(header_prefix))
    j = i
    while j < len(lines) and lines[j].startswith('|'):
        j += 1
    lines[i:j] = new
    return len(new)
a = splice('| prop | claimed |', 'statustable.py')
b = splice('| id | files |', 'seedtable.py')
open(p, 'w').write('\n'.join(lines))
print('status rows', a, 'seed rows', b)
