#!/bin/bash
# usage: lib/harmkeep.sh <PROP> <n> [extra props to check...]  — a behaviour-preserving refactoring delivered in
# /tmp/harm_<PROP>_<n>/_seed: confirm the suite passes with it, run our check(s) against it (they must NOT report a
# failing input), store it under /verif/seeded/harmless/<PROP>-<n>/ and remove the scratch worktree.
PROP=$1; N=$2; shift 2; EXTRA="$@"
S=/tmp/harm_${PROP}_${N}; D=/verif/seeded/harmless/${PROP}-${N}
[ -f $S/_seed/patch.diff ] || { echo "no patch in $S/_seed"; exit 2; }
mkdir -p $D; cp $S/_seed/patch.diff $D/; cp $S/_seed/equiv.py $D/ 2>/dev/null; cp $S/_seed/meta.json $D/meta.agent.json 2>/dev/null
W=/tmp/wkeep_$$; git -C /repo worktree add --detach $W HEAD -q
cd $W; git apply $D/patch.diff || { echo "patch does not apply"; git -C /repo worktree remove --force $W; exit 2; }
suite=$(PYTHONPATH=$W/src /venv/bin/python -m pytest -q -p no:cacheprovider -x 2>&1 | tail -1)
cd /verif; git -C /repo worktree remove --force $W
res=""
for P in $PROP $EXTRA; do
  q=$(TAILN=3 timeout 1500 lib/seedtest.sh $P $D/patch.diff quick 2>&1)
  rc=$(echo "$q" | grep -o 'exit=[0-9]*' | tail -1); line=$(echo "$q" | grep VIOLATION | head -1)
  res="$res$P:$rc:$line;"
done
python3 - "$PROP" "$N" "$suite" "$res" "$D" <<'PY'
import sys, json, os
prop,n,suite,res,D = sys.argv[1:6]
agent = {}
try: agent = json.load(open(os.path.join(D,'meta.agent.json')))
except Exception: pass
checks = {}
for part in res.split(';'):
    if part:
        p, rc, line = part.split(':', 2)
        checks[p] = {'quick': rc, 'line': line, 'verdict': 'silent (exit 0)' if rc == 'exit=0' else ('broken obligation/correspondence reported without a failing input (tolerated)' if 'no-failing-input-found' in line else 'FALSE ALARM WITH A FAILING INPUT' if 'VIOLATION' in line else 'infrastructure failure')}
meta = {'kind': 'behaviour-preserving refactoring', 'property': prop, 'variant': int(n), 'summary': agent.get('summary'), 'files_changed': agent.get('files_changed'),
        'suite_on_changed_tree': suite, 'our_checks': checks}
json.dump(meta, open(os.path.join(D,'meta.json'),'w'), indent=1)
print(suite, json.dumps(checks))
PY
rm -f $D/meta.agent.json
git -C /repo worktree remove --force $S 2>/dev/null; rm -rf $S
