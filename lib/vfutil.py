"""Small helpers shared by the harnesses: text generators, a generic JSON shrinker, counters."""
import json

ASCII_SPECIAL = list('%?#;+ &=/\\:@!$\'"()*,[]<>{}|^`~.-_')
NON_ASCII = ['é', 'ß', 'ü', 'λ', 'я', '日', '本', '語', '€', ' ', '​', '😀', '𝔘', '́']
CONTROL = ['\n', '\r', '\t', '\x00', '\x01', '\x7f', '\x1f']


def rand_text(rng, maxlen=6, alphabet=None, allow_empty=True, p_special=0.3, p_nonascii=0.3, p_control=0.0, forbid=''):
    """structured random text: mostly letters/digits, salted with URL-special, non-ASCII and control characters"""
    n = rng.randint(0 if allow_empty else 1, maxlen)
    out = []
    for _ in range(n):
        r = rng.random()
        if alphabet is not None:
            c = rng.choice(alphabet)
        elif r < p_control:
            c = rng.choice(CONTROL)
        elif r < p_control + p_special:
            c = rng.choice(ASCII_SPECIAL)
        elif r < p_control + p_special + p_nonascii:
            c = rng.choice(NON_ASCII)
        else:
            c = rng.choice('abcxyzABZ019')
        if c in forbid:
            c = 'q'
        out.append(c)
    return ''.join(out)


def bump(d, k, by=1):
    d[k] = d.get(k, 0) + by


def canon(x):
    return json.dumps(x, sort_keys=True, ensure_ascii=True, default=str)


def shrink(case, still_fails, max_steps=2000):
    """greedy structural shrinking of a JSON-like value: drop list elements / dict-free; shorten strings;
    lower ints.  `still_fails(candidate) -> bool` must be total (catch its own exceptions)."""
    steps = [0]

    def candidates(x):
        if isinstance(x, list):
            for i in range(len(x)):
                yield x[:i] + x[i + 1:]
            for i in range(len(x)):
                for c in candidates(x[i]):
                    yield x[:i] + [c] + x[i + 1:]
        elif isinstance(x, dict):
            for k in x:
                for c in candidates(x[k]):
                    y = dict(x); y[k] = c
                    yield y
        elif isinstance(x, str):
            for i in range(len(x)):
                yield x[:i] + x[i + 1:]
            if x and any(ch != 'a' for ch in x):
                for i, ch in enumerate(x):
                    if ch != 'a':
                        yield x[:i] + 'a' + x[i + 1:]
        elif isinstance(x, bool):
            return
        elif isinstance(x, int):
            if x > 0:
                yield 0
                yield x - 1
            elif x < 0:
                yield 0
                yield x + 1

    cur = case
    progress = True
    while progress and steps[0] < max_steps:
        progress = False
        for c in candidates(cur):
            steps[0] += 1
            if steps[0] >= max_steps:
                break
            try:
                ok = still_fails(c)
            except Exception:
                ok = False
            if ok:
                cur = c
                progress = True
                break
    return cur
