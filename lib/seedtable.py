"""print the markdown table of seeded changes (seeded/*/meta.json) for DESIGN.md §8.3"""
import json, glob, os
V = os.path.dirname(os.path.dirname(os.path.abspath(__file__)))
print('| id | files | what the change does (agent\'s summary, shortened) | our check |')
print('|----|-------|------------------------------------------------------|-----------|')
import re, subprocess
try:
    HEAD = subprocess.run(['git', '-C', '/repo', 'log', '-1', '--format=%h'], capture_output=True, text=True).stdout.strip()
except Exception:
    HEAD = ''
def _key(d):
    b = os.path.basename(d); mm = re.match(r'C(\d+)-(\d+)', b)
    return (int(mm.group(1)), int(mm.group(2))) if mm else (999, 0)
for d in sorted([x for x in glob.glob(os.path.join(V, 'seeded', 'C*')) if os.path.exists(os.path.join(x, 'meta.json'))], key=_key):
    m = json.load(open(os.path.join(d, 'meta.json')))
    oc = m.get('our_check', {})
    line = oc.get('line', '') or ''
    res = 'failing input' if ('VIOLATION' in line and 'no-failing-input-found' not in line) else ('no-failing-input-found' if 'VIOLATION' in line else oc.get('quick', '?'))
    if oc.get('history'):
        res += ' (after strengthening: ' + oc['history'][:160].replace('|', '/') + '…)'
    base = m.get('applies_to_repo_commit')
    if base and HEAD and base != HEAD:
        res += ' [stored patch applies to /repo ' + base + ', before later fix: commits]'
    s = (m.get('summary') or '').replace('\n', ' ').replace('|', '/')
    print('| %s | %s | %s | %s |' % (os.path.basename(d), ', '.join(os.path.basename(f) for f in (m.get('files_changed') or [])), s[:260] + ('…' if len(s) > 260 else ''), res))
