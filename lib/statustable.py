"""print the markdown status table for DESIGN.md §8.1 from Props/*.lean, known/*.json, extract/*.py, evidence/*.json"""
import json, glob, os, re
V = os.path.dirname(os.path.dirname(os.path.abspath(__file__)))
known = {}
for f in glob.glob(os.path.join(V, 'known', '*.json')):
    for x in json.load(open(f)):
        known.setdefault(x['property'], [])
        known[x['property']] = [y for y in known[x['property']] if y['id'] != x['id']] + [x]
held = set()
hp = os.path.join(V, 'manifest', 'HOLD')
if os.path.exists(hp):
    held = {l.split()[0] for l in open(hp) if l.strip() and not l.startswith('#')}
print('| prop | claimed | theorems (partial) | known findings | repaired findings (fix commit) | source facts regenerated each run | report |')
print('|------|---------|--------------------|----------------|-------------------------------|------------------------------------|--------|')
ids = ['C%02d' % i for i in range(1, 21)] + ['X%02d' % i for i in range(1, 10)]
for p in ids:
    props = os.path.join(V, 'lean', 'PyramidModel', 'Props', p + '.lean')
    if not os.path.exists(props):
        continue
    src = open(props).read()
    src = re.sub(r'/-.*?-/', '', src, flags=re.S)
    names = re.findall(r'^\s*(?:private\s+)?theorem\s+([A-Za-z0-9_\.\']+)', src, flags=re.M)
    partial = [n for n in names if n.endswith('_partial')]
    kn = [x['id'] for x in known.get(p, []) if x.get('status') == 'known']
    fx = ['%s (%s)' % (x['id'], x.get('commit', '?')) for x in known.get(p, []) if x.get('status') == 'fixed']
    ex = os.path.join(V, 'extract', p.lower() + '.py')
    how = '—'
    if os.path.exists(ex):
        t = open(ex).read()
        probe = ('subprocess' in t or 'importlib' in t or 'probe' in t.lower())
        ast_ = 'ast.parse' in t or 'import ast' in t
        how = ('probing the running code' if probe else '') + (' + ' if probe and ast_ else '') + ('AST' if ast_ else '')
        how = how or 'yes'
    claimed = 'extra (not a listed property)' if p.startswith('X') else ('on hold' if p in held else 'yes')
    print('| %s | %s | %d (%s) | %s | %s | %s | notes/%s.md |' % (p, claimed, len(names), ', '.join(partial) or 'none', ', '.join(kn) or 'none', ', '.join(fx) or '—', how, p))
