#!/bin/bash
# usage: lib/seedtest.sh <PROP> <patch.diff> [tier]   — run a check against a scratch worktree of /repo with a patch
# applied, from a scratch copy of /verif (so /verif's Gen/ and evidence/ are left alone).  Prints the check's tail.
set -e
PROP=$1; PATCH=$(readlink -f "$2"); TIER=${3:-quick}
V=/tmp/vseed_$$; W=/tmp/wseed_$$
rsync -a --exclude .git --exclude replays /verif/ $V/
git -C /repo worktree add --detach $W HEAD -q
trap 'git -C /repo worktree remove --force '$W' >/dev/null 2>&1; rm -rf '$V' ' EXIT
git -C $W apply "$PATCH"
cd $V
set +e
VERIF_REPO=$W ./check $PROP --tier $TIER 2>&1 | tail -${TAILN:-4}
rc=${PIPESTATUS[0]}
for f in replays/$PROP-*.json; do [ -f "$f" ] && { echo "--- $f"; head -c ${REPLAYC:-1200} "$f"; echo; break; }; done
echo "exit=$rc"
