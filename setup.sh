#!/bin/bash
# MANIFEST.setup_cmd: build the Lean library (models, lemmas, property theorems) and every model driver,
# offline, from the files on disk.  Checks rebuild incrementally on every run.
set -e
cd "$(dirname "$0")/lean"
drivers=$(grep -o 'name = "drv_[a-z0-9_]*"' lakefile.toml | sed 's/name = "\(.*\)"/\1/')
lake build PyramidModel $drivers
