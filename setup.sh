#!/bin/bash
# MANIFEST.setup_cmd: build the Lean library (models, lemmas, property theorems) and every model driver,
# offline, from the files on disk.  Checks rebuild incrementally on every run.
# A module that fails to build here does not fail the setup: lake builds everything else, and the check of the
# affected property rebuilds its own targets and reports the broken obligation itself.
cd "$(dirname "$0")/lean" || exit 1
drivers=$(grep -o 'name = "drv_[a-z0-9_]*"' lakefile.toml | sed 's/name = "\(.*\)"/\1/')
if ! lake build PyramidModel $drivers; then
  echo "setup: some Lean targets failed to build (see above); the checks of the affected properties will report it"
fi
exit 0
